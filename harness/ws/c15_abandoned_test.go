package ws

// C15, "Continuation with no message in progress ... is reported by the message-level read API ... none delivered as
// data", for a read call that follows one which ended in an error in the middle of a fragmented message: every
// message-level read starts with no message in progress, whatever the previous call had seen before it failed.

import (
	"bytes"
	"fmt"
	"testing"

	"github.com/talostrading/sonic/codec/websocket"
	"pgregory.net/rapid"
	"verif/internal/evid"
	"verif/internal/memstream"
	"verif/internal/rfc6455"
	"verif/internal/vt"
)

func TestC15_ContinuationAfterAnAbandonedMessage(t *testing.T) {
	rec := evid.For("C15")
	rec.SetRule("abandoned message: the peer sends 0..2 complete messages, the first fragment (or first two) of a fragmented message, a framing violation (RSV bit, reserved opcode, masked frame, control frame with FIN=0 or above 125 bytes), and then carries on with a continuation frame whose payload is marked, optionally followed by a complete message; read with NextMessage or AsyncNextMessage (completions inline or parked): the call that reaches the violation reports an error; the calls after it never deliver the marked bytes as a message without an error; non-trivial = the continuation is read by a later call than the one that failed")
	vt.Check(t, 400, func(t *rapid.T) {
		var wire []byte
		add := func(f rfc6455.Frame) { f.LenBytes = -1; wire = append(wire, rfc6455.Encode(f)...) }
		nbefore := rapid.IntRange(0, 2).Draw(t, "before")
		for i := 0; i < nbefore; i++ {
			add(rfc6455.Frame{Fin: true, Opcode: rfc6455.OpBinary, Payload: []byte{byte(i), 1, 2}})
		}
		add(rfc6455.Frame{Fin: false, Opcode: rfc6455.OpText, Payload: []byte("first-")})
		if rapid.Bool().Draw(t, "twoFragments") {
			add(rfc6455.Frame{Fin: false, Opcode: rfc6455.OpContinuation, Payload: []byte("second-")})
		}
		bad := rfc6455.Frame{Fin: true, Opcode: rfc6455.OpPing, Payload: []byte("x")}
		kind := rapid.SampledFrom([]string{"control-fin0", "control-too-long", "rsv1", "reserved-opcode", "masked"}).Draw(t, "violation")
		switch kind {
		case "control-fin0":
			bad.Fin = false
		case "control-too-long":
			bad.Payload = bytes.Repeat([]byte{'p'}, 126)
		case "rsv1":
			bad.Rsv1 = true
		case "reserved-opcode":
			bad.Opcode = byte(rapid.SampledFrom([]int{3, 7, 11, 15}).Draw(t, "rop"))
		case "masked":
			bad.Masked, bad.Key = true, [4]byte{9, 8, 7, 6}
		}
		add(bad)
		add(rfc6455.Frame{Fin: true, Opcode: rfc6455.OpContinuation, Payload: append(append([]byte{}, marker...), []byte("-tail")...)})
		if rapid.Bool().Draw(t, "messageAfter") {
			add(rfc6455.Frame{Fin: true, Opcode: rfc6455.OpBinary, Payload: []byte("after")})
		}
		async := rapid.Bool().Draw(t, "async")
		pattern := rapid.SliceOfN(rapid.Bool(), 1, 4).Draw(t, "inline")
		oneChunk := rapid.Bool().Draw(t, "oneChunk")
		ms := memstream.New(nil)
		if oneChunk {
			ms.Feed(wire)
		} else {
			frames, _ := rfc6455.ParseAll(wire) // one frame per transport read
			off := 0
			for _, f := range frames {
				ms.Feed(append([]byte(nil), wire[off:off+f.WireLen]...))
				off += f.WireLen
			}
			if off < len(wire) {
				ms.Feed(append([]byte(nil), wire[off:]...))
			}
		}
		k := 0
		ms.Inline = func(bool) bool { k++; return pattern[k%len(pattern)] }
		s, err := newAttached(70000, ms)
		if err != nil {
			t.Fatalf("attach: %v", err)
		}
		buf := make([]byte, 4096)
		read := func() (websocket.MessageType, int, error) {
			if !async {
				return s.NextMessage(buf)
			}
			done := 0
			var mt websocket.MessageType
			var n int
			var rerr error
			s.AsyncNextMessage(buf, func(err error, nn int, m websocket.MessageType) { done++; mt, n, rerr = m, nn, err })
			for d := 0; done == 0 && d < 1000 && ms.Deliver(); d++ {
			}
			if done != 1 {
				t.Fatalf("AsyncNextMessage callback ran %d times", done)
			}
			return mt, n, rerr
		}
		desc := fmt.Sprintf("before=%d violation=%s async=%v oneChunk=%v", nbefore, kind, async, oneChunk)
		errorsSeen, calls := 0, 0
		laterCall := false
		for ; calls < 8; calls++ {
			mt, n, err := read()
			if err == nil && bytes.Contains(buf[:max(n, 0)], marker) {
				t.Fatalf("%s: read call #%d delivered the payload of a continuation frame as a message (type=%v, %q) although no message was in progress for that call: the previous call had failed on a protocol violation", desc, calls, mt, buf[:n])
			}
			if err != nil {
				errorsSeen++
				if errorsSeen == 1 {
					laterCall = true
				}
				if errorsSeen >= 3 {
					break
				}
			}
		}
		if errorsSeen == 0 {
			t.Fatalf("%s: %d message reads and no error although the stream contains a framing violation", desc, calls)
		}
		rec.Case("abandoned|"+desc+fmt.Sprintf("|%x", wire), laterCall, []string{"continuation-after-an-abandoned-message", "mutation:" + kind}, map[string]any{"case": desc})
	})
}
