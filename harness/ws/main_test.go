package ws

import (
	"runtime"
	"testing"

	"verif/internal/vt"
)

func TestMain(m *testing.M) {
	// The websocket stream recycles frames through a sync.Pool, which keeps per-P caches: with one P a released frame
	// is the next one acquired, so pooled-frame reuse is a deterministic function of the generated history.
	runtime.GOMAXPROCS(1)
	vt.Main(m)
}
