package ws

// C17, a read and writes in flight together when the application drops the connection from inside a completion
// callback (what a handler does when the peer tells it to go away): the transport is readable and writable at the same
// time, so one poller event carries both directions; the callback that runs first calls CloseNextLayer, which cancels
// the other direction. Every operation in flight must still complete exactly once - the cancelled ones with an error -
// and nothing may be called again by later polls. (Added after seeded change C17-k.)

import (
	"fmt"
	"syscall"
	"testing"
	"time"

	"github.com/talostrading/sonic"
	"github.com/talostrading/sonic/codec/websocket"
	"pgregory.net/rapid"
	"verif/internal/evid"
	"verif/internal/rfc6455"
	"verif/internal/sysx"
	"verif/internal/vt"
)

func TestC17_TeardownFromCallback(t *testing.T) {
	rec := evid.For("C17")
	rec.SetRule("teardown from a callback: on a real connection an AsyncNextFrame/AsyncNextMessage is armed and 1..3 AsyncWrite/AsyncWriteFrame are started (in either order); the raw server has sent 0..2 frames before (readiness of both directions settled with poll(2), so one poller event carries both) or sends them after the first poll; the read callback, or the first or the last write callback, calls CloseNextLayer; oracle: every callback is invoked exactly once (the read with the frame or an error, each write with nil or an error), none is invoked by the polls that follow the teardown, Pending() returns to 0; non-trivial = the teardown ran in the read callback while a write was still in flight, or in a write callback while the read was still in flight")
	vt.Check(t, 80, func(rt *rapid.T) {
		ln, err := sysx.ListenTCP()
		if err != nil {
			rt.Fatalf("INFRA: listen: %v", err)
		}
		defer ln.Close()
		ioc, err := sonic.NewIO()
		if err != nil {
			rt.Fatalf("INFRA: NewIO: %v", err)
		}
		defer ioc.Close()
		s, err := websocket.NewWebsocketStream(ioc, nil, websocket.RoleClient)
		if err != nil {
			rt.Fatal(err)
		}
		ch := make(chan int, 1)
		go rawUpgrade(ln, ch)
		if err := s.Handshake("ws://" + ln.Addr() + "/"); err != nil {
			rt.Fatalf("INFRA: handshake: %v", err)
		}
		srv := <-ch
		if srv < 0 {
			rt.Fatalf("INFRA: server side of the handshake failed")
		}
		sysx.NoLinger(srv)
		defer syscall.Close(srv)
		defer s.CloseNextLayer()
		cfd := s.RawFd()

		nw := rapid.IntRange(1, 3).Draw(rt, "writes")
		tearIn := rapid.SampledFrom([]string{"read", "read", "firstWrite", "lastWrite"}).Draw(rt, "teardownIn")
		readAPI := rapid.SampledFrom([]string{"frame", "message"}).Draw(rt, "readAPI")
		readFirst := rapid.Bool().Draw(rt, "readArmedFirst")
		early := rapid.IntRange(0, 2).Draw(rt, "framesBeforePoll")
		sendFrames := func(k int) {
			for i := 0; i < k; i++ {
				p := []byte(fmt.Sprintf("srv-%d", i))
				sysx.WriteSome(srv, rfc6455.Encode(rfc6455.Frame{Fin: true, Opcode: rfc6455.OpText, Payload: p, LenBytes: -1}))
			}
		}
		if early > 0 {
			sendFrames(early)
			for deadline := time.Now().Add(2 * time.Second); !sysx.WaitReadable(cfd, 0) && time.Now().Before(deadline); {
				time.Sleep(200 * time.Microsecond)
			}
		}
		tornDown := false
		readCalls, readInFlight := 0, false
		writeCalls := make([]int, nw)
		writesDone := 0
		afterTeardown := ""
		otherInFlightAtTeardown := false
		teardown := func(otherInFlight bool) {
			if tornDown {
				return
			}
			tornDown = true
			otherInFlightAtTeardown = otherInFlight
			_ = s.CloseNextLayer()
		}
		settled := false // set once everything has completed: any later callback is one too many
		armRead := func() {
			readInFlight = true
			onRead := func(err error) {
				readCalls++
				readInFlight = false
				if settled {
					afterTeardown = fmt.Sprintf("read callback invoked after everything had completed (err=%v)", err)
				}
				if tearIn == "read" {
					teardown(writesDone < nw)
				}
			}
			if readAPI == "frame" {
				s.AsyncNextFrame(func(err error, _ websocket.Frame) { onRead(err) })
			} else {
				s.AsyncNextMessage(make([]byte, 256), func(err error, _ int, _ websocket.MessageType) { onRead(err) })
			}
		}
		startWrites := func() {
			for i := 0; i < nw; i++ {
				i := i
				cb := func(err error) {
					writeCalls[i]++
					writesDone++
					if settled {
						afterTeardown = fmt.Sprintf("callback of write #%d invoked after everything had completed (err=%v)", i, err)
					}
					if (tearIn == "firstWrite" && i == 0) || (tearIn == "lastWrite" && i == nw-1) {
						teardown(readInFlight)
					}
				}
				if i%2 == 0 {
					s.AsyncWrite([]byte(fmt.Sprintf("app-%d", i)), websocket.TypeText, cb)
				} else {
					f := s.AcquireFrame()
					f.SetFIN().SetBinary().SetPayload([]byte{byte(i), 1, 2, 3})
					s.AsyncWriteFrame(f, cb)
				}
			}
		}
		if readFirst {
			armRead()
			startWrites()
		} else {
			startWrites()
			armRead()
		}
		allDone := func() bool { return readCalls >= 1 && writesDone >= nw }
		began := time.Now()
		polls := 0
		for !allDone() {
			_ = ioc.RunOneFor(2 * time.Millisecond)
			polls++
			if polls == 1 && early < 2 {
				sendFrames(2 - early) // the read completes at the latest now
			}
			if allDone() {
				break
			}
			if tornDown && polls > 50 && time.Since(began) > vt.Patience(3*time.Second) {
				vt.TimedOut()
				rt.Fatalf("teardown in %s callback (%d writes, read %s, %d frames early): after the teardown read callbacks=%d, write callbacks=%v: an operation in flight never completed", tearIn, nw, readAPI, early, readCalls, writeCalls)
			}
			if time.Since(began) > vt.Patience(5*time.Second) {
				vt.TimedOut()
				rt.Fatalf("INFRA-free wait expired: teardown in %s (%d writes, read %s, %d frames early): read callbacks=%d, write callbacks=%v, torn down=%v", tearIn, nw, readAPI, early, readCalls, writeCalls, tornDown)
			}
		}
		if !tornDown {
			teardown(false)
		}
		settled = true
		for i := 0; i < 6; i++ {
			_ = ioc.RunOneFor(time.Millisecond)
		}
		if readCalls != 1 {
			rt.Fatalf("teardown in %s callback (%d writes, read %s armed first=%v, %d frames early): the read callback was invoked %d times, want exactly once", tearIn, nw, readAPI, readFirst, early, readCalls)
		}
		for i, c := range writeCalls {
			if c != 1 {
				rt.Fatalf("teardown in %s callback (%d writes, read %s armed first=%v, %d frames early): the callback of write #%d was invoked %d times, want exactly once (all: %v)", tearIn, nw, readAPI, readFirst, early, i, c, writeCalls)
			}
		}
		if afterTeardown != "" {
			rt.Fatalf("teardown in %s callback: %s", tearIn, afterTeardown)
		}
		if p := ioc.Pending(); p != 0 {
			rt.Fatalf("teardown in %s callback: everything completed, Pending()=%d", tearIn, p)
		}
		rec.Case(fmt.Sprintf("teardown|%s|%d|%s|%v|%d", tearIn, nw, readAPI, readFirst, early), otherInFlightAtTeardown, []string{"teardown-from-callback:" + tearIn}, map[string]any{"teardown_in": tearIn, "writes": nw, "read_api": readAPI, "read_first": readFirst, "frames_before_poll": early, "other_direction_in_flight": otherInFlightAtTeardown})
	})
}
