package ws

// C17 — WebSocket reads and writes in flight together each complete exactly once
// (real AsyncAdapter over a real TCP socket).

import (
	"bytes"
	"errors"
	"fmt"
	"strings"
	"syscall"
	"testing"
	"time"

	"github.com/talostrading/sonic"
	"github.com/talostrading/sonic/codec/websocket"
	"pgregory.net/rapid"
	"verif/internal/evid"
	"verif/internal/known"
	"verif/internal/rfc6455"
	"verif/internal/sysx"
	"verif/internal/vt"
)

// rawUpgrade accepts one connection on ln and answers the upgrade request.
func rawUpgrade(ln *sysx.RawTCPListener, out chan<- int) {
	fd, err := ln.Accept(5000)
	if err != nil {
		out <- -1
		return
	}
	_ = syscall.SetsockoptInt(fd, syscall.IPPROTO_TCP, syscall.TCP_NODELAY, 1)
	var req []byte
	for i := 0; i < 500 && !bytes.Contains(req, []byte("\r\n\r\n")); i++ {
		if sysx.WaitReadable(fd, 10) {
			req = append(req, sysx.ReadSome(fd, 4096)...)
		}
	}
	key := ""
	for _, line := range strings.Split(string(req), "\r\n") {
		if i := strings.Index(line, ":"); i > 0 && strings.EqualFold(line[:i], "Sec-WebSocket-Key") {
			key = strings.TrimSpace(line[i+1:])
		}
	}
	resp := "HTTP/1.1 101 Switching Protocols\r\nUpgrade: websocket\r\nConnection: Upgrade\r\nSec-WebSocket-Accept: " + rfc6455.AcceptKey(key) + "\r\n\r\n"
	sysx.WriteSome(fd, []byte(resp))
	out <- fd
}

type cbRec struct {
	what  string
	calls int
	err   error
}

func TestC17_ReadAndWriteInFlight(t *testing.T) {
	rec := evid.For("C17")
	rec.SetRule("rapid schedules on a real handshake against a raw harness server over the real AsyncAdapter (in a quarter of the cases preceded by a session on the same stream that is torn down with 1..3 writes and possibly a read in flight, then re-handshaken): peer sends data messages (1-2 fragments), pings, optionally a close; the application starts AsyncNextFrame/AsyncNextMessage (one read outstanding), AsyncWrite/AsyncWriteFrame/AsyncFlush (up to three application writes outstanding), AsyncClose, in generated positions relative to PollOne calls, and completion callbacks that themselves re-arm the read and/or start the next write (echo-style, generated per callback), in particular an application write issued while the read path's automatic Pong flush has not completed; peer drains; the session ends (epilogue, with a read and/or a write in flight) with nothing, AsyncClose followed by the peer's reply, the peer's Close followed by AsyncFlush (plus a late AsyncWrite that must be refused), the peer's Close already received when the application submits 1..3 writes and its own AsyncClose in one go (crossing closes: everything submitted must still reach the wire, then our Close), or a message larger than the buffer handed to AsyncNextMessage arriving while an application write is in flight; oracle: exactly one Close on the wire and nothing after it, every user callback is invoked exactly once (after everything was made completable and readiness confirmed, within 40 PollOne calls), reads deliver the peer's frames/messages in order, the server-side byte stream parses completely into the expected frames in submission order (pongs echo their ping), IO.Pending() returns to 0 when nothing is outstanding; non-trivial = an application write issued while a control-reply flush was in flight, or a read and a write callback in the same PollOne; distinct = hash of the schedule")
	rec.Assume("messages <= 2 KiB so that the adapter's blocking net.Conn.Write always fits the socket buffer; one read outstanding at a time, up to three application writes (they queue behind whatever flush is in flight; the automatic control replies of the read path are the overlap under test)")
	overlapKnown := known.Listed("C17", "overlapping-flush-drops-continuation")
	vt.CheckSteps(t, 200, 25, func(rt *rapid.T) {
		ln, err := sysx.ListenTCP()
		if err != nil {
			rt.Fatalf("INFRA: listen: %v", err)
		}
		defer ln.Close()
		ioc, err := sonic.NewIO()
		if err != nil {
			rt.Fatalf("INFRA: NewIO: %v", err)
		}
		defer ioc.Close()
		s, err := websocket.NewWebsocketStream(ioc, nil, websocket.RoleClient)
		if err != nil {
			rt.Fatal(err)
		}
		connect := func() int {
			ch := make(chan int, 1)
			go rawUpgrade(ln, ch)
			if err := s.Handshake("ws://" + ln.Addr() + "/"); err != nil {
				rt.Fatalf("INFRA: handshake: %v", err)
			}
			srv := <-ch
			if srv < 0 {
				rt.Fatalf("INFRA: server side of the handshake failed")
			}
			return srv
		}
		srv := connect()
		reconnected := false
		if rapid.IntRange(0, 3).Draw(rt, "reconnectFirst") == 0 {
			// an earlier session on the same stream object is torn down with operations in flight (what a watchdog on a
			// stalled peer does); the session under test is the one after the re-handshake and must behave like a fresh one
			nw := rapid.IntRange(1, 3).Draw(rt, "abandonedWrites")
			for i := 0; i < nw; i++ {
				s.AsyncWrite([]byte{byte(i), 0xAB}, websocket.TypeBinary, func(error) {})
			}
			if rapid.Bool().Draw(rt, "abandonedRead") {
				s.AsyncNextFrame(func(error, websocket.Frame) {})
			}
			if rapid.Bool().Draw(rt, "pollBeforeTeardown") {
				_, _ = ioc.PollOne()
			}
			_ = s.CloseNextLayer()
			sysx.NoLinger(srv)
			_ = syscall.Close(srv)
			for i := 0; i < 3; i++ {
				_, _ = ioc.PollOne()
			}
			srv = connect()
			reconnected = true
		}
		// In a third of the cases the maximum message size is lowered to 1800 bytes: everything the peer sends stays below
		// it, and so does what the application writes through the message API; caller-built frames (AsyncWriteFrame) of
		// 2000 bytes are above it, which is the caller's business and must not disturb anything else in flight.
		lowMax := rapid.IntRange(0, 2).Draw(rt, "lowMax") == 0
		if lowMax {
			s.SetMaxMessageSize(1800)
		}
		sysx.NoLinger(srv) // closing sends an RST: no TIME_WAIT sockets pile up over thousands of cases
		defer syscall.Close(srv)
		defer s.CloseNextLayer()
		cfd := s.RawFd()
		// what completion callbacks do (applications re-arm and echo from their callbacks): per read callback
		// 0 nothing, 1 re-arm the read, 2 start a write, 3 write then re-arm, 4 re-arm then write; per write callback 0 nothing, 1 next write
		readActs := rapid.SliceOfN(rapid.IntRange(0, 4), 1, 8).Draw(rt, "readActs")
		writeActs := rapid.SliceOfN(rapid.IntRange(0, 1), 1, 6).Draw(rt, "writeActs")
		ri, wi := 0, 0
		fromCallback := false
		quiesce := false

		var trace []string
		log := func(f string, a ...any) { trace = append(trace, fmt.Sprintf(f, a...)) }
		var problem string
		fail := func(f string, a ...any) {
			if problem == "" {
				problem = fmt.Sprintf(f, a...)
			}
		}
		var cbs []*cbRec
		var readCb *cbRec
		writesOut := 0              // application writes whose callback has not run yet (up to 3 may overlap)
		var inbound []rfc6455.Frame // frames the server sent, not yet delivered to the app
		var expWire []expOut        // frames the server must receive, in order
		var wire []byte
		closedByUs, peerClosed := false, false
		overlapWrite, sameCycle := false, false
		pongFlushPossiblyInFlight := false
		cbsThisPoll := map[string]int{}
		inPoll := false
		excluded := 0
		buf := make([]byte, 1<<16)
		var readEOF bool

		drainSrv := func() { wire = append(wire, sysx.ReadSome(srv, 1<<20)...) }
		noteCb := func(r *cbRec, err error) {
			r.calls++
			r.err = err
			if r.calls > 1 {
				fail("%s callback invoked %d times", r.what, r.calls)
			}
			if strings.HasPrefix(r.what, "read#") && errors.Is(err, websocket.ErrMessageTooBig) {
				fail("%s failed with %q although nothing the peer sent exceeds the reader's buffer or the maximum message size (%d)", r.what, err, s.MaxMessageSize())
			}
			if inPoll {
				cbsThisPoll[strings.SplitN(r.what, "#", 2)[0]]++
			}
		}
		// deliver pops the frames a completed read consumed and updates the expected wire
		onFrameDelivered := func(f rfc6455.Frame) {
			switch f.Opcode {
			case rfc6455.OpPing:
				if !closedByUs && !peerClosed {
					expWire = append(expWire, expOut{op: rfc6455.OpPong, payload: f.Payload, what: "pong"})
					pongFlushPossiblyInFlight = true
				}
			case rfc6455.OpClose:
				if !closedByUs && !peerClosed {
					expWire = append(expWire, expOut{op: rfc6455.OpClose, payload: f.Payload[:2], codeOnly: true, what: "close echo"})
				}
				peerClosed = true
			}
		}
		var startRead func(msgAPI bool)
		var appWrite func(kind string)
		var afterRead func(err error)
		startRead = func(msgAPI bool) {
			r := &cbRec{what: fmt.Sprintf("read#%d", len(cbs))}
			cbs = append(cbs, r)
			readCb = r
			if msgAPI {
				log("AsyncNextMessage#%d", len(cbs)-1)
				s.AsyncNextMessage(buf, func(err error, n int, mt websocket.MessageType) {
					noteCb(r, err)
					readCb = nil
					log("cb:%s(%v,n=%d)", r.what, err, n)
					if err != nil {
						readEOF = true
						return
					}
					// consume frames up to the FIN data frame of this message
					var acc []byte
					for len(inbound) > 0 {
						f := inbound[0]
						inbound = inbound[1:]
						if rfc6455.IsControl(f.Opcode) {
							continue // handled by the control callback
						}
						acc = append(acc, f.Payload...)
						if f.Fin {
							break
						}
					}
					if !bytes.Equal(acc, buf[:n]) {
						fail("%s delivered %d bytes %x.., the peer sent %d bytes %x..", r.what, n, head(buf[:n], 8), len(acc), head(acc, 8))
					}
					afterRead(err)
				})
			} else {
				log("AsyncNextFrame#%d", len(cbs)-1)
				s.AsyncNextFrame(func(err error, f websocket.Frame) {
					noteCb(r, err)
					readCb = nil
					log("cb:%s(%v)", r.what, err)
					if err != nil {
						readEOF = true
						return
					}
					if len(inbound) == 0 {
						fail("%s delivered a frame but the peer sent none", r.what)
						return
					}
					w := inbound[0]
					inbound = inbound[1:]
					if byte(f.Opcode()) != w.Opcode || f.IsFIN() != w.Fin || !bytes.Equal(f.Payload(), w.Payload) {
						fail("%s delivered op=%d fin=%v %x.., the peer sent %v", r.what, f.Opcode(), f.IsFIN(), head(f.Payload(), 8), w)
					}
					onFrameDelivered(w)
					afterRead(err)
				})
			}
		}
		afterRead = func(err error) {
			if err != nil || problem != "" || readEOF || quiesce {
				return
			}
			act := readActs[ri%len(readActs)]
			ri++
			rearm := func() {
				if readCb == nil {
					fromCallback = true
					startRead(false)
				}
			}
			write := func() {
				if writesOut < 3 {
					fromCallback = true
					appWrite("AsyncWrite")
				}
			}
			switch act {
			case 1:
				rearm()
			case 2:
				write()
			case 3:
				write()
				rearm()
			case 4:
				rearm()
				write()
			}
		}
		s.SetControlCallback(func(mt websocket.MessageType, p []byte) {
			// message API: control frames are consumed on the way
			for i, f := range inbound {
				if rfc6455.IsControl(f.Opcode) {
					if f.Opcode != byte(mt) || !bytes.Equal(f.Payload, p) {
						fail("control callback got type %d %x.., the next control frame the peer sent is %v", mt, head(p, 8), f)
					}
					onFrameDelivered(f)
					inbound = append(inbound[:i:i], inbound[i+1:]...)
					// data frames before it stay queued for the message callback
					return
				}
			}
			fail("control callback invoked but the peer sent no control frame")
		})
		msgCounter := 0
		appWrite = func(kind string) {
			r := &cbRec{what: fmt.Sprintf("write#%d", len(cbs))}
			cbs = append(cbs, r)
			writesOut++
			msgCounter++
			n := rapid.SampledFrom([]int{0, 1, 100, 126, 2000}).Draw(rt, "wlen")
			if lowMax && kind == "AsyncWrite" && n > 1800 {
				n = 1700 // the message API refuses what exceeds the configured maximum; caller-built frames are not subject to it
			}
			p := make([]byte, n)
			for i := range p {
				p[i] = byte(msgCounter*7 + i)
			}
			if pongFlushPossiblyInFlight && readCb != nil {
				overlapWrite = true
			}
			overMax := lowMax && n > 1800 // a caller-built frame above the configured maximum
			wireIdx := -1
			cb := func(err error) {
				noteCb(r, err)
				writesOut--
				log("cb:%s(%v)", r.what, err)
				switch {
				case overMax && err != nil && wireIdx >= 0:
					// whether frames above the maximum are sent or refused is the library's choice: a refused one is not
					// expected on the wire. Everything else in flight must be unaffected.
					expWire[wireIdx].optional = true
				case !overMax && errors.Is(err, websocket.ErrMessageTooBig):
					fail("%s of %d bytes (maximum message size %d) completed with %q", r.what, n, s.MaxMessageSize(), err)
				}
				if err == nil && problem == "" && !quiesce && writeActs[wi%len(writeActs)] == 1 && len(cbs) < 60 {
					wi++
					fromCallback = true
					appWrite("AsyncWrite")
				} else {
					wi++
				}
			}
			open := !closedByUs && !peerClosed && s.State() == websocket.StateActive
			log("%s#%d(%d)", kind, len(cbs)-1, n)
			switch kind {
			case "AsyncWrite":
				s.AsyncWrite(p, websocket.TypeBinary, cb)
			case "AsyncWriteFrame":
				f := s.AcquireFrame()
				f.SetFIN().SetBinary().SetPayload(p)
				s.AsyncWriteFrame(f, cb)
			case "AsyncFlush":
				s.AsyncFlush(cb)
				return
			}
			if open {
				expWire = append(expWire, expOut{op: rfc6455.OpBinary, payload: p, what: "application message"})
				wireIdx = len(expWire) - 1
				if overMax && r.calls > 0 && r.err != nil {
					expWire[wireIdx].optional = true // refused on the spot
				}
			}
		}
		peerSend := func(f rfc6455.Frame) {
			b := rfc6455.Encode(f)
			if sysx.WriteSome(srv, b) != len(b) {
				rt.Fatalf("INFRA: server could not write a frame")
			}
			inbound = append(inbound, f)
			log("peer:%v", f)
			if !sysx.WaitReadable(cfd, 1000) {
				rt.Fatalf("INFRA: client socket never readable after the peer wrote")
			}
		}
		poll := func() {
			inPoll = true
			cbsThisPoll = map[string]int{}
			n, _ := ioc.PollOne()
			inPoll = false
			log("poll=%d", n)
			if cbsThisPoll["read"] > 0 && cbsThisPoll["write"] > 0 {
				sameCycle = true
			}
			pongFlushPossiblyInFlight = pongFlushPossiblyInFlight && readCb != nil
			drainSrv()
		}
		checkNow := func() {
			if problem != "" {
				rt.Fatalf("%s; trace=%v", problem, trace)
			}
		}
		peerClosedSent := false
		rt.Repeat(map[string]func(*rapid.T){
			"peerData": func(rt *rapid.T) {
				if peerClosedSent {
					rt.Skip("peer closed")
				}
				p := genPayload(rt, 1500, "d.")
				op := byte(rfc6455.OpBinary)
				if len(p) > 1 && rapid.Bool().Draw(rt, "frag") {
					c := rapid.IntRange(0, len(p)).Draw(rt, "cut")
					peerSend(rfc6455.Frame{Fin: false, Opcode: op, Payload: p[:c], LenBytes: -1})
					peerSend(rfc6455.Frame{Fin: true, Opcode: rfc6455.OpContinuation, Payload: p[c:], LenBytes: -1})
				} else {
					peerSend(rfc6455.Frame{Fin: true, Opcode: op, Payload: p, LenBytes: -1})
				}
			},
			"peerPing": func(rt *rapid.T) {
				if peerClosedSent {
					rt.Skip("peer closed")
				}
				n := rapid.IntRange(0, 20).Draw(rt, "plen")
				p := make([]byte, n)
				for i := range p {
					p[i] = byte(0xA0 + i + len(inbound))
				}
				// a ping only makes sense inside a fragmented message for the message API; it is legal anywhere
				peerSend(rfc6455.Frame{Fin: true, Opcode: rfc6455.OpPing, Payload: p, LenBytes: -1})
			},
			"peerPing2": func(rt *rapid.T) {
				if peerClosedSent {
					rt.Skip("peer closed")
				}
				peerSend(rfc6455.Frame{Fin: true, Opcode: rfc6455.OpPing, Payload: []byte{byte(len(inbound))}, LenBytes: -1})
			},
			"read": func(rt *rapid.T) {
				if readCb != nil || readEOF {
					rt.Skip("read outstanding")
				}
				// the message API must start at a message boundary: only if the queue does not start in mid-message
				startRead(rapid.Bool().Draw(rt, "msgAPI") && midMessageFree(inbound))
			},
			"read2": func(rt *rapid.T) {
				if readCb != nil || readEOF {
					rt.Skip("read outstanding")
				}
				startRead(false)
			},
			"write": func(rt *rapid.T) {
				if writesOut >= 3 {
					rt.Skip("write outstanding")
				}
				if overlapKnown && readCb != nil {
					excluded++
					rt.Skip("steering away from the recorded overlapping-flush finding")
				}
				appWrite(rapid.SampledFrom([]string{"AsyncWrite", "AsyncWrite", "AsyncWriteFrame", "AsyncFlush"}).Draw(rt, "wkind"))
			},
			"pongOverlap": func(rt *rapid.T) {
				// the situation the property singles out: an automatic Pong flush in flight, an application write queued
				// behind it, more peer frames already buffered, and callbacks that re-arm/echo when the flush completes
				if peerClosedSent || readEOF {
					rt.Skip("peer closed")
				}
				peerSend(rfc6455.Frame{Fin: true, Opcode: rfc6455.OpPing, Payload: []byte{byte(len(inbound)), 1}, LenBytes: -1})
				if rapid.Bool().Draw(rt, "secondPing") {
					peerSend(rfc6455.Frame{Fin: true, Opcode: rfc6455.OpPing, Payload: []byte{byte(len(inbound)), 2}, LenBytes: -1})
				} else {
					peerSend(rfc6455.Frame{Fin: true, Opcode: rfc6455.OpBinary, Payload: genPayload(rt, 300, "po."), LenBytes: -1})
				}
				if readCb == nil {
					startRead(false)
				}
				poll()
				checkNow()
				if readCb == nil && !readEOF {
					startRead(false) // flushes the queued Pong: in flight until the next poll
				}
				if writesOut < 3 {
					appWrite("AsyncWrite") // queued behind that flush
				}
				poll()
			},
			"poll":  func(rt *rapid.T) { poll() },
			"poll2": func(rt *rapid.T) { poll() },
			"":      func(rt *rapid.T) { checkNow() },
		})
		checkNow()
		// wind down: callbacks stop starting new operations; make the outstanding read completable and poll until every callback ran
		quiesce = true
		if readCb != nil && len(inbound) == 0 && !peerClosedSent {
			peerSend(rfc6455.Frame{Fin: true, Opcode: rfc6455.OpBinary, Payload: []byte("fin"), LenBytes: -1})
		}
		outstanding := func() []string {
			var o []string
			for _, r := range cbs {
				if r.calls == 0 {
					o = append(o, r.what)
				}
			}
			return o
		}
		for i := 0; i < 40 && len(outstanding()) > 0; i++ {
			if readCb != nil {
				sysx.WaitReadable(cfd, 20)
			}
			poll()
			checkNow()
			if readCb != nil && len(inbound) == 0 && !readEOF {
				peerSend(rfc6455.Frame{Fin: true, Opcode: rfc6455.OpBinary, Payload: []byte("more"), LenBytes: -1})
			}
		}
		if o := outstanding(); len(o) > 0 {
			r, _ := sysx.PollFd(cfd, sysx.POLLIN|sysx.POLLOUT, 0)
			rt.Fatalf("callbacks never invoked: %v (client socket revents=%#x, %d bytes unread, Pending()=%d) although the peer made everything completable and the loop ran 40 more times; trace=%v", o, r, sysx.Unread(cfd), ioc.Pending(), trace)
		}
		// flush what the last reads queued and compare the wire
		fr := &cbRec{what: "finalflush"}
		s.AsyncFlush(func(err error) { noteCb(fr, err) })
		for i := 0; i < 20 && fr.calls == 0; i++ {
			poll()
		}
		if fr.calls != 1 {
			rt.Fatalf("final AsyncFlush callback invoked %d times; trace=%v", fr.calls, trace)
		}
		for i := 0; i < 50; i++ {
			drainSrv()
			if !sysx.WaitReadable(srv, 5) {
				break
			}
		}
		checkNow()
		if p := matchWire(wire, expWire); p != "" {
			rt.Fatalf("server side: %s; trace=%v", p, trace)
		}
		if ioc.Pending() != 0 {
			rt.Fatalf("IO.Pending()=%d with no operation outstanding; trace=%v", ioc.Pending(), trace)
		}
		// --- epilogue: how the session ends, with a read and/or a write in flight at that moment
		ending := "none"
		if !readEOF && !closedByUs && !peerClosed && s.State() == websocket.StateActive {
			ending = rapid.SampledFrom([]string{"none", "asyncClose", "asyncClose", "peerClose", "peerClose", "oversized", "oversized", "crossingClose", "crossingClose"}).Draw(rt, "ending")
		}
		pollUntil := func(what string, done func() bool) {
			for i := 0; i < 60 && !done(); i++ {
				if readCb != nil {
					sysx.WaitReadable(cfd, 5)
				}
				poll()
				checkNow()
			}
			if !done() {
				r, _ := sysx.PollFd(cfd, sysx.POLLIN|sysx.POLLOUT, 0)
				rt.Fatalf("%s: callbacks never invoked: %v (client socket revents=%#x, %d bytes unread, Pending()=%d) after 60 more poll cycles; trace=%v", what, outstanding(), r, sysx.Unread(cfd), ioc.Pending(), trace)
			}
		}
		collect := func() {
			for i := 0; i < 50; i++ {
				drainSrv()
				if !sysx.WaitReadable(srv, 5) {
					break
				}
			}
		}
		// readUntilClose keeps one frame read outstanding until the peer's Close has been delivered (earlier frames of the
		// peer may still be queued in front of it).
		readUntilClose := func(what string) {
			for k, bound := 0, len(inbound)+20; k < bound && !peerClosed && !readEOF; k++ { // one read per queued frame at most
				if readCb == nil {
					startRead(false)
				}
				pollUntil(what, func() bool { return readCb == nil })
			}
			if !peerClosed {
				fail("%s: the peer's Close frame was never delivered by a read (readEOF=%v)", what, readEOF)
			}
			pollUntil(what, func() bool { return len(outstanding()) == 0 })
		}
		if ending != "none" {
			log("ending:%s", ending)
			withRead := rapid.Bool().Draw(rt, "endRead")
			withWrite := rapid.Bool().Draw(rt, "endWrite")
			if ending == "oversized" {
				// the message that is too large for the reader's buffer must be the next thing the client reads: deliver
				// whatever the peer sent before it, and leave no read in flight
				withRead = false
				for k, bound := 0, 2*len(inbound)+20; k < bound && (len(inbound) > 0 || readCb != nil) && !readEOF; k++ {
					if readCb == nil {
						startRead(false)
					} else if len(inbound) == 0 {
						peerSend(rfc6455.Frame{Fin: true, Opcode: rfc6455.OpBinary, Payload: []byte("pad"), LenBytes: -1})
					}
					pollUntil("draining before the oversized message", func() bool { return readCb == nil })
				}
				if readEOF || len(inbound) > 0 {
					ending = "none"
				}
			}
			if withRead && readCb == nil {
				startRead(false) // stays in flight: nothing inbound
			}
			if withWrite && ending != "none" && ending != "oversized" && ending != "crossingClose" {
				appWrite("AsyncWrite")
			}
			switch ending {
			case "oversized":
				big := make([]byte, rapid.SampledFrom([]int{65, 300, 2000}).Draw(rt, "bigLen"))
				if lowMax && len(big) > 1800 {
					big = big[:300] // (stay below the configured maximum: this ending is about the reader's buffer)
				}
				for i := range big {
					big[i] = byte(0x51 + i)
				}
				or := &cbRec{what: fmt.Sprintf("oversizedread#%d", len(cbs))}
				cbs = append(cbs, or)
				small := make([]byte, 64)
				arm := func() {
					log("AsyncNextMessage#%d(64-byte buffer, %d-byte message)", len(cbs)-1, len(big))
					s.AsyncNextMessage(small, func(err error, n int, mt websocket.MessageType) {
						noteCb(or, err)
						log("cb:%s(%v,n=%d)", or.what, err, n)
					})
				}
				// the read is armed before the message arrives (it waits in the poller), or after
				readFirst := rapid.Bool().Draw(rt, "readArmedFirst")
				if readFirst {
					arm()
					poll()
				}
				if rapid.Bool().Draw(rt, "bigFragmented") {
					peerSend(rfc6455.Frame{Fin: false, Opcode: rfc6455.OpBinary, Payload: big[:40], LenBytes: -1})
					peerSend(rfc6455.Frame{Fin: true, Opcode: rfc6455.OpContinuation, Payload: big[40:], LenBytes: -1})
				} else {
					peerSend(rfc6455.Frame{Fin: true, Opcode: rfc6455.OpBinary, Payload: big, LenBytes: -1})
				}
				inbound = nil // never delivered as a message
				if withWrite {
					appWrite("AsyncWrite") // in flight on the transport when the poller finds the socket readable and writable
				}
				if !readFirst {
					arm()
				}
				pollUntil("oversized message", func() bool { return len(outstanding()) == 0 })
				if or.err == nil {
					fail("a %d-byte message was delivered into a 64-byte buffer without an error", len(big))
				}
				closedByUs = true
				// the client gives up on the connection with a Close; which status it carries is not C17's business
				fr := &cbRec{what: fmt.Sprintf("flushafter#%d", len(cbs))}
				cbs = append(cbs, fr)
				s.AsyncFlush(func(err error) { noteCb(fr, err) })
				pollUntil("flush after the oversized message", func() bool { return len(outstanding()) == 0 })
				collect()
				if fs, _ := rfc6455.ParseAll(wire); len(fs) > 0 && fs[len(fs)-1].Opcode == rfc6455.OpClose {
					expWire = append(expWire, expOut{op: rfc6455.OpClose, payload: fs[len(fs)-1].Payload, what: "close after an oversized message"})
				}
				// (whether the client announces that it gives up is not C17's business: what must hold is that every
				// frame submitted reached the wire once and nothing else did, which the comparison below decides)
			case "asyncClose":
				cr := &cbRec{what: fmt.Sprintf("close#%d", len(cbs))}
				cbs = append(cbs, cr)
				log("AsyncClose#%d", len(cbs)-1)
				s.AsyncClose(websocket.CloseNormal, "bye", func(err error) { noteCb(cr, err); log("cb:%s(%v)", cr.what, err) })
				closedByUs = true
				expWire = append(expWire, expOut{op: rfc6455.OpClose, payload: rfc6455.ClosePayload(1000, "bye"), what: "local close"})
				if st := s.State(); st != websocket.StateClosedByUs {
					fail("State()=%v right after AsyncClose, want closed-by-us", st)
				}
				// a write submitted after the Close is refused, exactly once, and never reaches the wire
				lr := &cbRec{what: fmt.Sprintf("latewrite#%d", len(cbs))}
				cbs = append(cbs, lr)
				s.AsyncWrite([]byte("late"), websocket.TypeText, func(err error) { noteCb(lr, err) })
				pollUntil("after AsyncClose", func() bool {
					for _, r := range cbs {
						if r.calls == 0 && r != readCb {
							return false
						}
					}
					return true
				})
				if cr.err != nil {
					fail("AsyncClose on a healthy connection completed with %v", cr.err)
				}
				if lr.err == nil {
					fail("AsyncWrite after AsyncClose completed without an error")
				}
				// the peer answers; the read (in flight or started now) sees the Close exactly once
				peerSend(rfc6455.Frame{Fin: true, Opcode: rfc6455.OpClose, Payload: rfc6455.ClosePayload(1000, "bye"), LenBytes: -1})
				readUntilClose("peer's Close reply")
			case "crossingClose":
				// Both sides close at the same moment: the peer's own Close is already in the client's receive buffer when
				// the application writes 1..3 messages and starts its closing handshake without polling in between, so
				// the first message is in flight on the transport and the rest, with our Close, is queued behind it. The
				// peer's Close is then read while those are still queued. Everything submitted before our Close must
				// still reach the wire, followed by our Close, once.
				if readCb == nil && withRead {
					startRead(false)
				}
				peerSend(rfc6455.Frame{Fin: true, Opcode: rfc6455.OpClose, Payload: rfc6455.ClosePayload(1001, "going"), LenBytes: -1})
				quiesce = true // the write callbacks do not start further writes: the stream is closing
				for k, nw := 0, rapid.IntRange(1, 3).Draw(rt, "crossingWrites"); k < nw; k++ {
					appWrite("AsyncWrite")
				}
				cr := &cbRec{what: fmt.Sprintf("close#%d", len(cbs))}
				cbs = append(cbs, cr)
				log("AsyncClose#%d", len(cbs)-1)
				s.AsyncClose(websocket.CloseNormal, "bye", func(err error) { noteCb(cr, err); log("cb:%s(%v)", cr.what, err) })
				closedByUs = true
				expWire = append(expWire, expOut{op: rfc6455.OpClose, payload: rfc6455.ClosePayload(1000, "bye"), what: "local close"})
				readUntilClose("the peer's Close crossing ours")
				if cr.err != nil {
					fail("AsyncClose on a healthy connection completed with %v", cr.err)
				}
			case "peerClose":
				peerSend(rfc6455.Frame{Fin: true, Opcode: rfc6455.OpClose, Payload: rfc6455.ClosePayload(1001, "going"), LenBytes: -1})
				readUntilClose("peer's Close")
				if st := s.State(); st == websocket.StateActive {
					fail("State() still active after the peer's Close was read")
				}
				// the reply goes out with the next flush, once
				fr := &cbRec{what: fmt.Sprintf("replyflush#%d", len(cbs))}
				cbs = append(cbs, fr)
				s.AsyncFlush(func(err error) { noteCb(fr, err) })
				lr := &cbRec{what: fmt.Sprintf("latewrite#%d", len(cbs))}
				cbs = append(cbs, lr)
				s.AsyncWrite([]byte("late"), websocket.TypeText, func(err error) { noteCb(lr, err) })
				pollUntil("reply flush", func() bool { return len(outstanding()) == 0 })
				if lr.err == nil {
					fail("AsyncWrite after the peer's Close completed without an error")
				}
			}
			checkNow()
			collect()
			if p := matchWire(wire, expWire); p != "" {
				rt.Fatalf("server side after %s: %s; trace=%v", ending, p, trace)
			}
			closes := 0
			fs, _ := rfc6455.ParseAll(wire)
			for i, f := range fs {
				if f.Opcode == rfc6455.OpClose {
					closes++
					if i != len(fs)-1 {
						fail("a frame follows the client's Close on the wire: %v", fs[i+1])
					}
				}
			}
			if closes > 1 || (closes != 1 && ending != "oversized") {
				// (after an oversized message the client may or may not announce that it gives up: not C17's business)
				fail("%d Close frames on the wire after %s, want exactly one", closes, ending)
			}
			checkNow()
			for _, r := range cbs {
				if r.calls != 1 {
					rt.Fatalf("%s callback invoked %d times by the end of the session; trace=%v", r.what, r.calls, trace)
				}
			}
		}
		rec.ExcludedKnown(excluded)
		var cls []string
		if overlapWrite {
			cls = append(cls, "write-while-control-flush-in-flight")
		}
		if sameCycle {
			cls = append(cls, "read+write-callbacks-in-one-poll")
		}
		if fromCallback {
			cls = append(cls, "operations-started-from-callbacks")
		}
		if ending != "none" {
			cls = append(cls, "ending-"+ending)
		}
		if reconnected {
			cls = append(cls, "session-after-a-torn-down-one")
		}
		rec.Case(strings.Join(trace, ","), overlapWrite || sameCycle, cls, map[string]any{"schedule": trace})
	})
}

// midMessageFree tells whether the undelivered frames start at a message boundary.
func midMessageFree(inbound []rfc6455.Frame) bool {
	for _, f := range inbound {
		if rfc6455.IsControl(f.Opcode) {
			continue
		}
		return f.Opcode != rfc6455.OpContinuation
	}
	return true
}

var _ = time.Now
