package ws

import (
	"bytes"
	"fmt"
	"sync"

	"github.com/talostrading/sonic"
	"github.com/talostrading/sonic/codec/websocket"
	"pgregory.net/rapid"
	"verif/internal/memstream"
	"verif/internal/rfc6455"
)

var (
	ioOnce   sync.Once
	sharedIO *sonic.IO
)

func theIO() *sonic.IO {
	ioOnce.Do(func() { sharedIO = sonic.MustIO() })
	return sharedIO
}

// attachValidateUTF8 makes newAttached switch on the optional UTF-8 validation of text frames; sessions generated while
// sessionASCIIText is set carry ASCII-only text payloads (valid UTF-8 wherever a fragment boundary falls), binary payloads
// stay arbitrary.
var attachValidateUTF8, sessionASCIIText bool

var attachCounter int

// newAttached builds a client stream over a scripted transport.
func newAttached(max int, ms *memstream.Stream) (*websocket.Stream, error) {
	s, err := websocket.NewWebsocketStream(theIO(), nil, websocket.RoleClient)
	if err != nil {
		return nil, err
	}
	// the maximum is configured before the stream is initialised or afterwards, alternately: both are documented uses
	attachCounter++
	if attachCounter%2 == 0 {
		s.SetMaxMessageSize(max)
	}
	if attachValidateUTF8 {
		s.ValidateUTF8(true)
	}
	if err := s.VerifAttach(ms); err != nil {
		return nil, err
	}
	if attachCounter%2 == 1 {
		s.SetMaxMessageSize(max)
	}
	return s, nil
}

type wsMessage struct {
	Binary  bool
	Payload []byte
}

func (m wsMessage) opcode() byte {
	if m.Binary {
		return rfc6455.OpBinary
	}
	return rfc6455.OpText
}

// genPayload draws a payload whose size comes from the length classes.
func genPayload(t *rapid.T, max int, lbl string) []byte {
	n := rapid.OneOf(
		rapid.IntRange(0, 40),
		rapid.IntRange(0, 40),
		rapid.IntRange(0, 600),
		rapid.SampledFrom([]int{0, 1, 125, 126, 127, 128, 65535, 65536, 65537, max - 1, max}),
		// around the read buffer's initial capacity (4096) and its first growth steps, header bytes included
		rapid.IntRange(4070, 4110),
		rapid.SampledFrom([]int{4082, 4086, 4092, 4093, 4094, 4095, 4096, 4097, 8178, 8190, 8192, 16384}),
		rapid.IntRange(0, max),
	).Draw(t, lbl+"len")
	if n > max {
		n = max
	}
	if n < 0 {
		n = 0
	}
	fill := byte(rapid.IntRange(0, 255).Draw(t, lbl+"fill"))
	b := make([]byte, n)
	for i := range b {
		b[i] = fill + byte(i*31) + byte(i>>8)
	}
	return b
}

// fragment cuts a message into 1..4 frames at generated points.
func fragment(t *rapid.T, m wsMessage, lbl string) []rfc6455.Frame {
	k := rapid.OneOf(rapid.Just(0), rapid.IntRange(0, 3)).Draw(t, lbl+"nfrag")
	cuts := map[int]bool{}
	for i := 0; i < k; i++ {
		cuts[rapid.IntRange(0, len(m.Payload)).Draw(t, lbl+"fcut")] = true
	}
	var frames []rfc6455.Frame
	prev := 0
	first := true
	emit := func(end int, fin bool) {
		op := byte(rfc6455.OpContinuation)
		if first {
			op = m.opcode()
		}
		frames = append(frames, rfc6455.Frame{Fin: fin, Opcode: op, Payload: m.Payload[prev:end], LenBytes: -1})
		first = false
		prev = end
	}
	n := 0
	for c := 0; c <= len(m.Payload) && n < k; c++ {
		if cuts[c] {
			emit(c, false) // may be an empty fragment: legal
			n++
		}
	}
	emit(len(m.Payload), true)
	return frames
}

func genControl(t *rapid.T, lbl string) rfc6455.Frame {
	op := byte(rfc6455.OpPing)
	if rapid.Bool().Draw(t, lbl+"pong") {
		op = rfc6455.OpPong
	}
	n := rapid.OneOf(rapid.IntRange(0, 10), rapid.SampledFrom([]int{0, 1, 124, 125})).Draw(t, lbl+"clen")
	p := make([]byte, n)
	fill := byte(rapid.IntRange(0, 255).Draw(t, lbl+"cfill"))
	for i := range p {
		p[i] = fill ^ byte(i)
	}
	return rfc6455.Frame{Fin: true, Opcode: op, Payload: p, LenBytes: -1}
}

type session struct {
	Messages []wsMessage
	Frames   []rfc6455.Frame // server->client, unmasked
	Starts   []int           // byte offset of every frame in Wire
	Wire     []byte
	// shape flags
	Fragmented, ControlBetween, Big bool
	NearMax                         bool // a message within 130 bytes of the maximum with a large control frame between its fragments
}

// genSession draws a conforming server->client frame sequence.
func genSession(t *rapid.T, max int, maxMsgs int) session {
	var s session
	n := rapid.IntRange(1, maxMsgs).Draw(t, "nmsg")
	for i := 0; i < n; i++ {
		lbl := fmt.Sprintf("m%d.", i)
		m := wsMessage{Binary: rapid.Bool().Draw(t, lbl+"bin"), Payload: genPayload(t, max, lbl)}
		// one shape is drawn on purpose rather than left to chance: a message that fills the configured maximum (almost)
		// completely, cut so that most of it has been read when a control frame with a large payload arrives between the
		// fragments - whatever is accounted against the maximum besides the message's own bytes shows here
		nearMax := max >= 400 && rapid.IntRange(0, 7).Draw(t, lbl+"nearMax") == 0
		var frs []rfc6455.Frame
		if nearMax {
			n := max - rapid.IntRange(0, 130).Draw(t, lbl+"belowMax")
			fill := byte(rapid.IntRange(0, 255).Draw(t, lbl+"nfill"))
			m.Payload = make([]byte, n)
			for k := range m.Payload {
				m.Payload[k] = fill + byte(k*29) + byte(k>>7)
			}
			c := n - rapid.IntRange(0, 126).Draw(t, lbl+"tail")
			frs = []rfc6455.Frame{
				{Fin: false, Opcode: m.opcode(), Payload: m.Payload[:c], LenBytes: -1},
				{Fin: true, Opcode: rfc6455.OpContinuation, Payload: m.Payload[c:], LenBytes: -1},
			}
		}
		if sessionASCIIText && !m.Binary {
			for k := range m.Payload { // the fragments made above alias this slice
				m.Payload[k] &= 0x7f
			}
		}
		s.Messages = append(s.Messages, m)
		if len(m.Payload) > 125 {
			s.Big = true
		}
		if !nearMax {
			frs = fragment(t, m, lbl)
		}
		if len(frs) > 1 {
			s.Fragmented = true
		}
		for j, f := range frs {
			// control frames may go anywhere, including between fragments
			for rapid.IntRange(0, 3).Draw(t, lbl+"ctl") == 0 {
				s.Frames = append(s.Frames, genControl(t, lbl))
				if j > 0 {
					s.ControlBetween = true
				}
			}
			if nearMax && j == 1 {
				c := genControl(t, lbl+"big.")
				c.Payload = bytes.Repeat([]byte{0xC7}, rapid.IntRange(100, 125).Draw(t, lbl+"bigctl"))
				s.Frames = append(s.Frames, c)
				s.ControlBetween, s.NearMax = true, true
			}
			s.Frames = append(s.Frames, f)
		}
	}
	for rapid.IntRange(0, 3).Draw(t, "tailctl") == 0 {
		s.Frames = append(s.Frames, genControl(t, "tail."))
	}
	for _, f := range s.Frames {
		s.Starts = append(s.Starts, len(s.Wire))
		s.Wire = append(s.Wire, rfc6455.Encode(f)...)
	}
	return s
}

// segment cuts wire bytes into chunks; cuts are biased into frame headers.
func segment(t *rapid.T, wire []byte, starts []int, lbl string) (chunks [][]byte, cuts []int, inHeader bool) {
	if len(wire) == 0 {
		return nil, nil, false
	}
	k := rapid.OneOf(rapid.Just(0), rapid.IntRange(0, 6), rapid.IntRange(0, 6)).Draw(t, lbl+"ncuts")
	set := map[int]bool{}
	for i := 0; i < k; i++ {
		var c int
		if len(starts) > 0 && rapid.Bool().Draw(t, lbl+"hdr") {
			s := starts[rapid.IntRange(0, len(starts)-1).Draw(t, lbl+"which")]
			c = s + rapid.IntRange(1, 10).Draw(t, lbl+"off")
		} else {
			c = rapid.IntRange(1, len(wire)).Draw(t, lbl+"cut")
		}
		if c > 0 && c < len(wire) {
			set[c] = true
		}
	}
	if rapid.IntRange(0, 15).Draw(t, lbl+"bytewise") == 0 && len(wire) <= 400 {
		for c := 1; c < len(wire); c++ {
			set[c] = true
		}
	}
	prev := 0
	for c := 1; c < len(wire); c++ {
		if set[c] {
			chunks = append(chunks, wire[prev:c])
			cuts = append(cuts, c)
			prev = c
		}
	}
	chunks = append(chunks, wire[prev:])
	for _, c := range cuts {
		for i, s := range starts {
			h := rfc6455.ParseHeader(wire[s:])
			end := s + h.HeaderLen
			_ = i
			if c > s && c < end {
				inHeader = true
			}
		}
	}
	return
}

func copyChunks(chunks [][]byte) [][]byte {
	out := make([][]byte, len(chunks))
	for i, c := range chunks {
		out[i] = append([]byte(nil), c...)
	}
	return out
}
