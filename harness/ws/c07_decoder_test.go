package ws

// C07 — the WebSocket frame decoder is total, bounded and stays in sync.

import (
	"bytes"
	"errors"
	"fmt"
	"testing"

	"github.com/talostrading/sonic"
	"github.com/talostrading/sonic/codec/websocket"
	"github.com/talostrading/sonic/sonicerrors"
	"pgregory.net/rapid"
	"verif/internal/evid"
	"verif/internal/rfc6455"
	"verif/internal/vt"
)

type decodeOutcome struct {
	frames   int
	terminal string // "needmore" | "error"
	overMax  bool
	lens     []int
}

// decodeAgainstRef feeds pieces into a fresh FrameCodec and compares every
// Decode result with the independent parser. It returns a description of the
// first disagreement, or "".
//
// previous, if given, is what the buffers went through before: the bytes of an earlier session are written into the same
// source buffer, decoded as far as they go, and the buffers are then Reset and handed to a new codec - what
// websocket.Stream does when it is handshaken again. None of it may show through.
func decodeAgainstRef(max int, pieces [][]byte, previous ...[]byte) (out decodeOutcome, problem string) {
	defer func() {
		if r := recover(); r != nil {
			problem = fmt.Sprintf("decoder panicked: %v", r)
		}
	}()
	src := sonic.NewByteBuffer()
	dst := sonic.NewByteBuffer()
	codec := websocket.NewFrameCodec(src, dst, max)
	for _, prev := range previous {
		_, _ = src.Write(prev)
		for i := 0; i < 8; i++ {
			if _, err := codec.Decode(src); err != nil {
				break
			}
		}
		src.Reset()
		dst.Reset()
		codec = websocket.NewFrameCodec(src, dst, max)
	}
	if readFromCap > 0 {
		// the way a connection fills the buffer: ReadFrom takes what fits the free capacity and never grows the
		// buffer; making room for what it asked for is the decoder's job
		src.Reserve(readFromCap)
	}
	initialCap := src.Cap()
	var fed []byte
	offset := 0 // reference offset of the next frame in fed
	lazy := 0   // bytes of the last returned frame, consumed at the next Decode
	dead := false
	for pi := 0; pi <= len(pieces); pi++ {
		var piece []byte
		if pi < len(pieces) {
			piece = pieces[pi]
		} else if len(pieces) > 0 {
			break
		}
	feeding:
		for first := true; first || len(piece) > 0; first = false {
			if len(piece) > 0 {
				n := len(piece)
				if readFromCap > 0 {
					nn, _ := src.ReadFrom(bytes.NewReader(piece))
					n = int(nn)
					if n == 0 {
						return out, fmt.Sprintf("the decoder asked for more bytes at offset %d and left no room for them: buffer length %d, capacity %d, %d bytes waiting in the transport (the reader would spin for ever)", offset, src.Len(), src.Cap(), len(piece))
					}
				} else {
					_, _ = src.Write(piece)
					if producerCommits {
						src.Commit(len(piece)) // a producer that follows ByteBuffer's Write-then-Commit workflow itself
					}
				}
				fed = append(fed, piece[:n]...)
				piece = piece[n:]
			}
			for !dead {
				avail := fed[offset:]
				f, err := codec.Decode(src)
				// what does the reference say?
				declared, known := rfc6455.LengthKnown(avail)
				switch {
				case known && declared > uint64(max):
					out.overMax = true
					if err == nil {
						return out, fmt.Sprintf("frame at offset %d declares %d bytes (max %d) and was yielded", offset, declared, max)
					}
					if errors.Is(err, sonicerrors.ErrNeedMore) {
						return out, fmt.Sprintf("frame at offset %d declares %d bytes (max %d): decoder asks for more instead of rejecting", offset, declared, max)
					}
					out.terminal = "error"
					dead = true
				default:
					rf, n, st := rfc6455.Parse(avail)
					if st == rfc6455.NeedMore {
						if err == nil {
							return out, fmt.Sprintf("decoder yielded a frame of %d bytes at offset %d where only a partial frame (%d bytes) is present", len(f), offset, len(avail))
						}
						if !errors.Is(err, sonicerrors.ErrNeedMore) {
							return out, fmt.Sprintf("partial frame at offset %d (%d bytes available): decoder returned %v, want ErrNeedMore", offset, len(avail), err)
						}
						out.terminal = "needmore"
					} else {
						if err != nil {
							return out, fmt.Sprintf("complete frame %v at offset %d: decoder returned %v", rf, offset, err)
						}
						raw := avail[:n]
						if !bytes.Equal([]byte(f), raw) {
							return out, fmt.Sprintf("frame at offset %d: decoder returned %d bytes %x.., wire has %d bytes %x..", offset, len(f), head(f, 16), n, head(raw, 16))
						}
						if f.IsFIN() != rf.Fin || f.IsRSV1() != rf.Rsv1 || f.IsRSV2() != rf.Rsv2 || f.IsRSV3() != rf.Rsv3 ||
							byte(f.Opcode()) != rf.Opcode || f.IsMasked() != rf.Masked || f.PayloadLength() != len(rf.Payload) {
							return out, fmt.Sprintf("frame at offset %d: accessors disagree with the reference %v", offset, rf)
						}
						wirePayload := raw[n-len(rf.Payload):]
						if !bytes.Equal(f.Payload(), wirePayload) {
							return out, fmt.Sprintf("frame at offset %d: Payload() differs from the wire payload", offset)
						}
						if rf.Masked && !bytes.Equal(f.Mask(), rf.Key[:]) {
							return out, fmt.Sprintf("frame at offset %d: Mask() differs", offset)
						}
						out.frames++
						out.lens = append(out.lens, n)
						// bytes before this frame have been consumed, this frame is still buffered
						if got, want := src.ReadLen()+src.WriteLen(), len(fed)-offset; got != want {
							return out, fmt.Sprintf("after decoding the frame at offset %d the buffer holds %d bytes, want %d (previous frame must be consumed exactly)", offset, got, want)
						}
						offset += n
						lazy = n
					}
				}
				_ = lazy
				bound := 2*(len(fed)+max+64) + initialCap
				if src.Cap() > bound {
					return out, fmt.Sprintf("buffer capacity grew to %d (fed %d bytes, max %d): decoder buffers for an oversized frame", src.Cap(), len(fed), max)
				}
				if out.terminal == "needmore" && err != nil && errors.Is(err, sonicerrors.ErrNeedMore) {
					break
				}
			}
			if dead {
				break feeding
			}
		}
		if dead {
			break
		}
	}
	return out, ""
}

// readFromCap > 0 makes decodeAgainstRef fill the buffer with ByteBuffer.ReadFrom from a buffer of that initial capacity
// instead of Write (set around a call; the checks are sequential).
var readFromCap int

// producerCommits makes decodeAgainstRef commit every piece right after writing it (the read area then holds more than the
// frame being decoded).
var producerCommits bool

func head(b []byte, n int) []byte {
	if len(b) > n {
		return b[:n]
	}
	return b
}

var lengthClasses = []uint64{0, 1, 2, 124, 125, 126, 127, 128, 65534, 65535, 65536, 65537}

func genFrame(t *rapid.T, max int, lbl string) (rfc6455.Frame, string) {
	f := rfc6455.Frame{LenBytes: -1}
	f.Fin = rapid.Bool().Draw(t, lbl+"fin")
	rsv := rapid.OneOf(rapid.Just(0), rapid.Just(0), rapid.IntRange(0, 7)).Draw(t, lbl+"rsv")
	f.Rsv1, f.Rsv2, f.Rsv3 = rsv&4 != 0, rsv&2 != 0, rsv&1 != 0
	f.Opcode = byte(rapid.OneOf(rapid.SampledFrom([]int{0, 1, 2, 8, 9, 10}), rapid.IntRange(0, 15)).Draw(t, lbl+"op"))
	f.Masked = rapid.Bool().Draw(t, lbl+"masked")
	if f.Masked {
		k := rapid.Uint32().Draw(t, lbl+"key")
		f.Key = [4]byte{byte(k >> 24), byte(k >> 16), byte(k >> 8), byte(k)}
	}
	classes := append(append([]uint64{}, lengthClasses...), uint64(max)-1, uint64(max))
	kind := rapid.IntRange(0, 9).Draw(t, lbl+"kind")
	class := "7bit"
	var n uint64
	switch {
	case kind <= 4:
		n = rapid.SampledFrom(classes).Draw(t, lbl+"len")
	case kind <= 6:
		n = uint64(rapid.IntRange(0, max).Draw(t, lbl+"rlen"))
	case kind == 7:
		// non-minimal length encoding of a small length
		n = uint64(rapid.IntRange(0, 300).Draw(t, lbl+"slen"))
		f.LenBytes = rapid.SampledFrom([]int{2, 8}).Draw(t, lbl+"lb")
	default:
		// the header lies: declares more than max (never materialised)
		f.DeclaredLen = rapid.SampledFrom([]uint64{uint64(max) + 1, uint64(max) + 2, 1 << 31, 1<<31 + 5, 1<<32 - 1, 1 << 32, 1 << 62, 1 << 63, 1<<63 + 1, 1<<64 - 1, 0xffff300000000000}).Draw(t, lbl+"huge")
		n = uint64(rapid.IntRange(0, 40).Draw(t, lbl+"tail"))
		class = "over-max"
	}
	if n > uint64(max) && f.DeclaredLen == 0 {
		n = uint64(max)
	}
	f.Payload = make([]byte, n)
	seed := byte(rapid.IntRange(0, 255).Draw(t, lbl+"fill"))
	for i := range f.Payload {
		f.Payload[i] = seed + byte(i*7)
	}
	if class != "over-max" {
		switch lb := f.LenBytes; {
		case lb == 2 || (lb < 0 && n > 125 && n <= 0xFFFF):
			class = "16bit"
		case lb == 8 || (lb < 0 && n > 0xFFFF):
			class = "64bit"
		}
	}
	return f, class
}

func splitBytes(t *rapid.T, b []byte, maxPieces int, lbl string) ([][]byte, []int) {
	if len(b) == 0 {
		return [][]byte{b}, nil
	}
	k := rapid.IntRange(0, maxPieces-1).Draw(t, lbl+"ncuts")
	cutset := map[int]bool{}
	for i := 0; i < k; i++ {
		// bias the cuts towards the first bytes of the stream (headers)
		c := rapid.OneOf(rapid.IntRange(0, len(b)), rapid.IntRange(0, min(len(b), 16))).Draw(t, lbl+"cut")
		cutset[c] = true
	}
	var cuts []int
	for c := 0; c <= len(b); c++ {
		if cutset[c] && c > 0 && c < len(b) {
			cuts = append(cuts, c)
		}
	}
	var pieces [][]byte
	prev := 0
	for _, c := range cuts {
		pieces = append(pieces, b[prev:c])
		prev = c
	}
	pieces = append(pieces, b[prev:])
	return pieces, cuts
}

func TestC07_DecoderVsReference(t *testing.T) {
	rec := evid.For("C07")
	rec.SetRule("rapid: byte streams built from 1..5 frames over all header bits x opcode 0..15 x mask x length classes {0,1,125,126,127,65535,65536,max-1,max, non-minimal encodings, declared lengths max+1, 2^31, 2^32, 2^63, 2^64-1 (header lies)}, optionally truncated or followed by arbitrary bytes, or fully arbitrary bytes; each stream fed whole and under a generated split into 1..4 pieces (cuts biased into headers) to FrameCodec.Decode and compared call by call with an independent RFC 6455 parser (frame bytes, accessors, ErrNeedMore iff incomplete, error iff declared>max, exact consumption, bounded capacity); in a quarter of the cases additionally through buffers that held 1..3 (possibly truncated) frames of an earlier session, were decoded from, Reset and given to a new codec, as a re-handshaken Stream does: same outcome required; in a third of the cases additionally with the buffer filled by ByteBuffer.ReadFrom from an initial capacity of 32/128/4096 (ReadFrom never grows the buffer: a decoder that asks for more without making room is reported); in a quarter with every piece committed by the producer right after it was written; plus Encode->Decode round trips; non-trivial = a 16/64-bit length OR a cut inside a frame header OR a declared length above max; distinct = hash of stream+cuts")
	vt.Check(t, 4000, func(t *rapid.T) {
		max := rapid.SampledFrom([]int{70000, 70000, 300, 125, 65536}).Draw(t, "max")
		var stream []byte
		var starts []int
		classes := map[string]bool{}
		mode := rapid.IntRange(0, 9).Draw(t, "mode")
		if mode == 0 {
			stream = rapid.SliceOfN(rapid.Byte(), 0, 64).Draw(t, "raw")
			classes["arbitrary"] = true
		} else {
			n := rapid.IntRange(1, 5).Draw(t, "nframes")
			for i := 0; i < n; i++ {
				f, class := genFrame(t, max, fmt.Sprintf("f%d.", i))
				classes[class] = true
				starts = append(starts, len(stream))
				stream = append(stream, rfc6455.Encode(f)...)
				if class == "over-max" {
					break
				}
			}
			switch mode {
			case 1:
				cut := rapid.IntRange(0, len(stream)).Draw(t, "truncate")
				stream = stream[:cut]
				classes["truncated"] = true
			case 2:
				stream = append(stream, rapid.SliceOfN(rapid.Byte(), 1, 20).Draw(t, "garbage")...)
				classes["garbage-tail"] = true
			}
		}
		pieces, cuts := splitBytes(t, stream, 4, "split.")
		// is any cut inside a frame header? (first 14 bytes after a frame start)
		cutInHeader := false
		for _, c := range cuts {
			for _, s := range starts {
				if c > s && c < s+14 {
					cutInHeader = true
				}
			}
		}
		whole, p1 := decodeAgainstRef(max, [][]byte{stream})
		if p1 != "" {
			t.Fatalf("whole input (max=%d, %d bytes %x..): %s", max, len(stream), head(stream, 24), p1)
		}
		split, p2 := decodeAgainstRef(max, pieces)
		if p2 != "" {
			t.Fatalf("split input (max=%d, cuts=%v, %d bytes %x..): %s", max, cuts, len(stream), head(stream, 24), p2)
		}
		if rapid.IntRange(0, 2).Draw(t, "viaReadFrom") == 0 {
			// the same input through ByteBuffer.ReadFrom, which is how CodecConn and the websocket stream fill the buffer
			readFromCap = rapid.SampledFrom([]int{32, 128, 128, 4096}).Draw(t, "bufCap")
			limited, p4 := decodeAgainstRef(max, pieces)
			cap0 := readFromCap
			readFromCap = 0
			if p4 != "" {
				t.Fatalf("split input (max=%d, cuts=%v, %d bytes %x..) read with ReadFrom into a buffer of capacity %d: %s", max, cuts, len(stream), head(stream, 24), cap0, p4)
			}
			if limited.frames != split.frames || limited.terminal != split.terminal || fmt.Sprint(limited.lens) != fmt.Sprint(split.lens) {
				t.Fatalf("outcome depends on how the buffer is filled: Write=%+v ReadFrom(cap %d)=%+v cuts=%v stream=%x..", split, cap0, limited, cuts, head(stream, 24))
			}
			classes["filled-with-ReadFrom"] = true
		}
		if rapid.IntRange(0, 3).Draw(t, "producerCommits") == 0 {
			// the same input with every piece committed by the producer as soon as it is written
			producerCommits = true
			committed, p5 := decodeAgainstRef(max, pieces)
			producerCommits = false
			if p5 != "" {
				t.Fatalf("split input (max=%d, cuts=%v, %d bytes %x..) with every piece committed by the producer: %s", max, cuts, len(stream), head(stream, 24), p5)
			}
			if committed.frames != split.frames || committed.terminal != split.terminal || fmt.Sprint(committed.lens) != fmt.Sprint(split.lens) {
				t.Fatalf("outcome depends on who commits the bytes: decoder=%+v producer=%+v cuts=%v stream=%x..", split, committed, cuts, head(stream, 24))
			}
			classes["committed-by-producer"] = true
		}
		if rapid.IntRange(0, 3).Draw(t, "reused") == 0 {
			// the same input through buffers that served an earlier session
			var prev []byte
			for i, n := 0, rapid.IntRange(1, 3).Draw(t, "prevFrames"); i < n; i++ {
				f, _ := genFrame(t, 300, fmt.Sprintf("prev%d.", i))
				f.DeclaredLen = 0
				if len(f.Payload) > 300 {
					f.Payload = f.Payload[:300]
				}
				prev = append(prev, rfc6455.Encode(f)...)
			}
			prev = prev[:rapid.IntRange(1, len(prev)).Draw(t, "prevCut")]
			reused, p3 := decodeAgainstRef(max, pieces, prev)
			if p3 != "" {
				t.Fatalf("split input (max=%d, cuts=%v, %d bytes %x..) through buffers that held %d bytes %x.. of an earlier session and were Reset: %s", max, cuts, len(stream), head(stream, 24), len(prev), head(prev, 16), p3)
			}
			if reused.frames != split.frames || reused.terminal != split.terminal || fmt.Sprint(reused.lens) != fmt.Sprint(split.lens) {
				t.Fatalf("outcome depends on what the buffers held before Reset: fresh=%+v reused=%+v cuts=%v stream=%x.. previous=%x..", split, reused, cuts, head(stream, 24), head(prev, 16))
			}
			classes["reused-buffers"] = true
		}
		if whole.frames != split.frames || whole.terminal != split.terminal || fmt.Sprint(whole.lens) != fmt.Sprint(split.lens) {
			t.Fatalf("outcome depends on the split: whole=%+v split=%+v cuts=%v stream=%x..", whole, split, cuts, head(stream, 24))
		}
		nt := classes["16bit"] || classes["64bit"] || classes["over-max"] || cutInHeader
		var cls []string
		for _, k := range []string{"over-max", "64bit", "16bit", "7bit", "arbitrary", "truncated", "garbage-tail", "reused-buffers", "filled-with-ReadFrom", "committed-by-producer"} {
			if classes[k] {
				cls = append(cls, k)
			}
		}
		if cutInHeader {
			cls = append(cls, "cut-in-header")
		}
		rec.Case(fmt.Sprintf("%d|%x|%v", max, stream, cuts), nt, cls,
			map[string]any{"max": max, "stream_len": len(stream), "stream_head": fmt.Sprintf("%x", head(stream, 32)), "cuts": cuts, "frames_decoded": whole.frames, "terminal": whole.terminal})
	})
}

func TestC07_EncodeDecodeRoundTrip(t *testing.T) {
	rec := evid.For("C07")
	vt.Check(t, 1500, func(t *rapid.T) {
		max := 70000
		src := sonic.NewByteBuffer()
		dst := sonic.NewByteBuffer()
		codec := websocket.NewFrameCodec(src, dst, max)
		n := rapid.IntRange(1, 4).Draw(t, "n")
		type want struct {
			fin, r1, r2, r3, masked bool
			op                      byte
			payload                 []byte
		}
		var wants []want
		big := false
		for i := 0; i < n; i++ {
			w := want{
				fin: rapid.Bool().Draw(t, "fin"), r1: rapid.Bool().Draw(t, "r1"), r2: rapid.Bool().Draw(t, "r2"), r3: rapid.Bool().Draw(t, "r3"),
				masked: rapid.Bool().Draw(t, "masked"), op: byte(rapid.IntRange(0, 15).Draw(t, "op")),
			}
			ln := rapid.OneOf(rapid.SampledFrom([]int{0, 1, 125, 126, 127, 65535, 65536, max - 1, max}), rapid.IntRange(0, 400)).Draw(t, "len")
			if ln > 125 {
				big = true
			}
			w.payload = make([]byte, ln)
			fill := byte(rapid.IntRange(0, 255).Draw(t, "fill"))
			for j := range w.payload {
				w.payload[j] = fill + byte(j*13)
			}
			f := websocket.NewFrame()
			if w.fin {
				f.SetFIN()
			}
			if w.r1 {
				f.SetRSV1()
			}
			if w.r2 {
				f.SetRSV2()
			}
			if w.r3 {
				f.SetRSV3()
			}
			f.SetOpcode(websocket.Opcode(w.op))
			if w.masked {
				f.SetIsMasked()
			}
			f.SetPayload(w.payload)
			if w.masked {
				f.MaskPayload()
			}
			if err := codec.Encode(f, dst); err != nil {
				t.Fatalf("Encode: %v", err)
			}
			wants = append(wants, w)
		}
		wire := append([]byte(nil), dst.Data()...)
		// independent parse of what the encoder produced
		frames, rest := rfc6455.ParseAll(wire)
		if len(rest) != 0 || len(frames) != len(wants) {
			t.Fatalf("encoder output does not parse into %d frames: got %d frames, %d trailing bytes", len(wants), len(frames), len(rest))
		}
		for i, w := range wants {
			rf := frames[i]
			if rf.Fin != w.fin || rf.Rsv1 != w.r1 || rf.Rsv2 != w.r2 || rf.Rsv3 != w.r3 || rf.Opcode != w.op || rf.Masked != w.masked || !bytes.Equal(rf.Payload, w.payload) {
				t.Fatalf("encoded frame %d parses as %v, want %+v", i, rf, w)
			}
			if rf.LenBytes != rfc6455.ShortestLenBytes(uint64(len(w.payload))) {
				t.Fatalf("encoded frame %d uses a %d-byte extended length for %d bytes", i, rf.LenBytes, len(w.payload))
			}
		}
		// decode what the encoder produced, under a split
		pieces, cuts := splitBytes(t, wire, 3, "split.")
		for _, p := range pieces {
			_, _ = src.Write(p)
			for {
				f, err := codec.Decode(src)
				if errors.Is(err, sonicerrors.ErrNeedMore) {
					break
				}
				if err != nil {
					t.Fatalf("Decode(Encode(f)): %v", err)
				}
				if len(wants) == 0 {
					t.Fatalf("decoder yielded more frames than were encoded")
				}
				w := wants[0]
				wants = wants[1:]
				f.UnmaskPayload()
				if f.IsFIN() != w.fin || f.IsRSV1() != w.r1 || f.IsRSV2() != w.r2 || f.IsRSV3() != w.r3 || byte(f.Opcode()) != w.op || f.IsMasked() != w.masked ||
					f.PayloadLength() != len(w.payload) || !bytes.Equal(f.Payload(), w.payload) {
					t.Fatalf("round trip changed the frame: got fin=%v op=%d masked=%v len=%d, want %+v (cuts %v)", f.IsFIN(), f.Opcode(), f.IsMasked(), f.PayloadLength(), w, cuts)
				}
			}
		}
		if len(wants) != 0 {
			t.Fatalf("%d encoded frames were not decoded", len(wants))
		}
		rec.Case(fmt.Sprintf("rt|%x|%v", head(wire, 64), cuts), big || len(cuts) > 0, []string{"roundtrip"}, map[string]any{"roundtrip_frames": n, "wire_len": len(wire), "cuts": cuts})
	})
}
