package ws

// C18 — opening handshake: sound acceptance, robust parsing, no lost bytes.

import (
	"bufio"
	"bytes"
	"encoding/base64"
	"fmt"
	"io"
	"net"
	"net/http"
	"sort"
	"strings"
	"testing"
	"time"

	"github.com/talostrading/sonic"
	"github.com/talostrading/sonic/codec/websocket"
	"pgregory.net/rapid"
	"verif/internal/evid"
	"verif/internal/known"
	"verif/internal/rfc6455"
	"verif/internal/vt"
)

type hsPlan struct {
	Status     string // status line after "HTTP/1.1 "
	Upgrade    string // "", or the header value
	UpName     string // header name spelling
	Accept     string // right wrong missing
	AcName     string
	Sep        []string // separator after the colon, per header
	Order      []int    // permutation of header indices
	Extra      bool
	Pad        int         // >0: an additional header with this many bytes of value (response heads larger than the client's initial buffer)
	Piggy      []wsMessage // complete messages sent in the same bytes as the response
	PartialCut int         // >0: the last piggy-backed frame is cut after this many bytes; the rest follows later
	Cuts       []int       // segment boundaries inside response(+piggy) bytes
	EndCuts    []int       // segment boundaries relative to the end of the response head (negative = inside the final CRLFCRLF or before it)
	CloseAt    int         // >=0: the server closes after this many bytes of the response
	Later      []wsMessage
	Conforming bool
}

type hsServerResult struct {
	request []byte
	err     error
	conn    net.Conn
	respLen int
}

// serveOne accepts one connection, reads the upgrade request and answers per plan.
func serveOne(ln net.Listener, p hsPlan, out chan<- hsServerResult) {
	var res hsServerResult
	defer func() { out <- res }()
	_ = ln.(*net.TCPListener).SetDeadline(time.Now().Add(5 * time.Second))
	c, err := ln.Accept()
	if err != nil {
		res.err = err
		return
	}
	res.conn = c
	_ = c.(*net.TCPConn).SetNoDelay(true)
	_ = c.(*net.TCPConn).SetLinger(0) // closing sends an RST: no TIME_WAIT sockets pile up over thousands of cases
	_ = c.SetDeadline(time.Now().Add(5 * time.Second))
	var req []byte
	buf := make([]byte, 4096)
	for !bytes.Contains(req, []byte("\r\n\r\n")) {
		n, err := c.Read(buf)
		req = append(req, buf[:n]...)
		if err != nil {
			res.err = err
			res.request = req
			return
		}
	}
	res.request = req
	key := ""
	for _, line := range strings.Split(string(req), "\r\n") {
		if i := strings.Index(line, ":"); i > 0 && strings.EqualFold(line[:i], "Sec-WebSocket-Key") {
			key = strings.TrimSpace(line[i+1:])
		}
	}
	type hdr struct{ k, v string }
	var hs []hdr
	if p.Upgrade != "" {
		hs = append(hs, hdr{p.UpName, p.Upgrade})
	}
	hs = append(hs, hdr{"Connection", "Upgrade"})
	switch p.Accept {
	case "right":
		hs = append(hs, hdr{p.AcName, rfc6455.AcceptKey(key)})
	case "wrong":
		hs = append(hs, hdr{p.AcName, rfc6455.AcceptKey(key + "x")})
	case "swapcase", "flipone", "truncated", "nopad":
		// near misses of the right value: base64 is case sensitive, every character counts
		right := []byte(rfc6455.AcceptKey(key))
		flip := func(c byte) byte {
			switch {
			case c >= 'a' && c <= 'z':
				return c - 32
			case c >= 'A' && c <= 'Z':
				return c + 32
			}
			return c
		}
		switch p.Accept {
		case "swapcase":
			for i := range right {
				right[i] = flip(right[i])
			}
		case "flipone":
			for i := range right {
				if flip(right[i]) != right[i] {
					right[i] = flip(right[i])
					break
				}
			}
		case "truncated":
			right = right[:len(right)-2]
		case "nopad":
			right = bytes.TrimRight(right, "=")
		}
		if string(right) == rfc6455.AcceptKey(key) {
			right = append(right, 'x') // (no letter to flip: cannot happen with 27 base64 characters, but stay wrong)
		}
		hs = append(hs, hdr{p.AcName, string(right)})
	}
	if p.Extra {
		hs = append(hs, hdr{"X-Served-By", "verif"}, hdr{"Date", "Thu, 01 Jan 2026 00:00:00 GMT"})
	}
	if p.Pad > 0 {
		hs = append(hs, hdr{"Set-Cookie", "session=" + strings.Repeat("c", p.Pad)})
	}
	var resp bytes.Buffer
	resp.WriteString("HTTP/1.1 " + p.Status + "\r\n")
	used := map[int]bool{}
	emit := func(i int) {
		if i < len(hs) && !used[i] {
			used[i] = true
			sep := p.Sep[i%len(p.Sep)]
			resp.WriteString(hs[i].k + ":" + sep + hs[i].v)
			if strings.HasSuffix(sep, " ") && i%2 == 1 {
				resp.WriteString(" ") // optional trailing whitespace
			}
			resp.WriteString("\r\n")
		}
	}
	for _, i := range p.Order {
		emit(i)
	}
	for i := range hs {
		emit(i)
	}
	resp.WriteString("\r\n")
	res.respLen = resp.Len()
	all := resp.Bytes()
	var rest []byte
	for i, m := range p.Piggy {
		f := rfc6455.Encode(rfc6455.Frame{Fin: true, Opcode: m.opcode(), Payload: m.Payload, LenBytes: -1})
		if i == len(p.Piggy)-1 && p.PartialCut > 0 && p.PartialCut < len(f) {
			all = append(all, f[:p.PartialCut]...)
			rest = f[p.PartialCut:]
		} else {
			all = append(all, f...)
		}
	}
	if p.CloseAt >= 0 && p.CloseAt < res.respLen {
		all = all[:p.CloseAt]
	}
	cuts := append([]int{}, p.Cuts...)
	for _, e := range p.EndCuts {
		cuts = append(cuts, res.respLen+e)
	}
	sort.Ints(cuts)
	prev := 0
	for _, cut := range cuts {
		if cut > prev && cut < len(all) {
			if _, err := c.Write(all[prev:cut]); err != nil {
				res.err = err
				return
			}
			prev = cut
			time.Sleep(3 * time.Millisecond) // lets the segments arrive as separate reads
		}
	}
	if _, err := c.Write(all[prev:]); err != nil {
		res.err = err
		return
	}
	if p.CloseAt >= 0 && p.CloseAt < res.respLen {
		// the server ends its side in the middle of the response (an orderly FIN); it keeps its socket so that the test
		// can see whether the client lets go of the connection too
		if tc, ok := c.(*net.TCPConn); ok && p.CloseAt%2 == 0 {
			_ = tc.CloseWrite()
			return
		}
		_ = c.Close()
		res.conn = nil
		return
	}
	if len(rest) > 0 {
		time.Sleep(3 * time.Millisecond)
		_, _ = c.Write(rest)
	}
}

func genHsPlan(t *rapid.T, lbl string) hsPlan {
	p := hsPlan{CloseAt: -1}
	p.Status = rapid.SampledFrom([]string{"101 Switching Protocols", "101 Switching Protocols", "101 Switching Protocols", "101 Switching Protocols", "101 Web Socket Protocol Handshake", "200 OK", "400 Bad Request", "426 Upgrade Required"}).Draw(t, lbl+"status")
	p.Upgrade = rapid.SampledFrom([]string{"websocket", "websocket", "websocket", "websocket", "WebSocket", "WEBSOCKET", "", "h2c", "websockets", "websocket2", "xwebsocket", "websocke", "WebSocket-Draft76"}).Draw(t, lbl+"upgrade")
	p.UpName = rapid.SampledFrom([]string{"Upgrade", "upgrade", "UPGRADE"}).Draw(t, lbl+"upname")
	p.Accept = rapid.SampledFrom([]string{"right", "right", "right", "right", "right", "right", "wrong", "missing", "swapcase", "flipone", "truncated", "nopad"}).Draw(t, lbl+"accept")
	p.AcName = rapid.SampledFrom([]string{"Sec-WebSocket-Accept", "sec-websocket-accept", "Sec-Websocket-Accept", "SEC-WEBSOCKET-ACCEPT"}).Draw(t, lbl+"acname")
	p.Sep = rapid.SliceOfN(rapid.SampledFrom([]string{" ", " ", "", "  ", "\t"}), 1, 4).Draw(t, lbl+"sep")
	p.Order = rapid.Permutation([]int{0, 1, 2, 3, 4}).Draw(t, lbl+"order")
	p.Extra = rapid.Bool().Draw(t, lbl+"extra")
	p.Pad = rapid.SampledFrom([]int{0, 0, 0, 700, 900, 1100, 3000, 9000}).Draw(t, lbl+"pad")
	p.Conforming = strings.HasPrefix(p.Status, "101 ") && strings.EqualFold(p.Upgrade, "websocket") && p.Accept == "right"
	if rapid.IntRange(0, 2).Draw(t, lbl+"piggy") == 0 {
		n := rapid.IntRange(1, 3).Draw(t, lbl+"npiggy")
		for i := 0; i < n; i++ {
			p.Piggy = append(p.Piggy, wsMessage{Binary: rapid.Bool().Draw(t, lbl+"pbin"), Payload: genPayload(t, 300, lbl+"piggy.")})
		}
		if rapid.IntRange(0, 2).Draw(t, lbl+"bulk") == 0 {
			// more bytes behind the head than the client's frame buffer holds initially (4 KiB): they can only arrive in
			// one read together with the end of the head when the head was large (the handshake buffer has grown, and
			// stays grown for later handshakes on the same stream)
			for i, nb := 0, rapid.IntRange(20, 45).Draw(t, lbl+"nbulk"); i < nb; i++ {
				b := make([]byte, rapid.IntRange(100, 300).Draw(t, lbl+"bulklen"))
				for j := range b {
					b[j] = byte(i*17 + j*5 + 3)
				}
				p.Piggy = append(p.Piggy, wsMessage{Binary: true, Payload: b})
			}
		}
		if rapid.IntRange(0, 2).Draw(t, lbl+"partial") == 0 {
			p.PartialCut = rapid.IntRange(1, 6).Draw(t, lbl+"pcut")
		}
	}
	nl := rapid.IntRange(0, 2).Draw(t, lbl+"nlater")
	for i := 0; i < nl; i++ {
		p.Later = append(p.Later, wsMessage{Binary: rapid.Bool().Draw(t, lbl+"lbin"), Payload: genPayload(t, 300, lbl+"later.")})
	}
	if rapid.IntRange(0, 2).Draw(t, lbl+"seg") == 0 {
		p.Cuts = rapid.SliceOfN(rapid.IntRange(1, 260), 1, 3).Draw(t, lbl+"cuts")
		// keep them sorted
		for i := 1; i < len(p.Cuts); i++ {
			for j := i; j > 0 && p.Cuts[j] < p.Cuts[j-1]; j-- {
				p.Cuts[j], p.Cuts[j-1] = p.Cuts[j-1], p.Cuts[j]
			}
		}
	}
	if rapid.IntRange(0, 2).Draw(t, lbl+"endseg") == 0 {
		p.EndCuts = rapid.SliceOfNDistinct(rapid.IntRange(-6, 3), 1, 3, func(i int) int { return i }).Draw(t, lbl+"endcuts")
	}
	if rapid.IntRange(0, 7).Draw(t, lbl+"close") == 0 {
		p.CloseAt = rapid.IntRange(0, 120).Draw(t, lbl+"closeAt")
	}
	return p
}

func checkRequest(req []byte, extra map[string]string, prevKeys map[string]bool) string {
	r, err := http.ReadRequest(bufio.NewReader(bytes.NewReader(req)))
	if err != nil {
		return fmt.Sprintf("upgrade request does not parse as HTTP: %v (%q)", err, req)
	}
	if r.Method != "GET" || r.ProtoMajor != 1 || r.ProtoMinor != 1 {
		return fmt.Sprintf("request line is %s %s", r.Method, r.Proto)
	}
	if r.Host == "" {
		return "no Host header"
	}
	if !strings.EqualFold(r.Header.Get("Upgrade"), "websocket") {
		return fmt.Sprintf("Upgrade header is %q", r.Header.Get("Upgrade"))
	}
	if !strings.Contains(strings.ToLower(r.Header.Get("Connection")), "upgrade") {
		return fmt.Sprintf("Connection header is %q", r.Header.Get("Connection"))
	}
	if r.Header.Get("Sec-WebSocket-Version") != "13" {
		return fmt.Sprintf("Sec-WebSocket-Version is %q", r.Header.Get("Sec-WebSocket-Version"))
	}
	key := r.Header.Get("Sec-WebSocket-Key")
	raw, err := base64.StdEncoding.DecodeString(key)
	if err != nil || len(raw) != 16 {
		return fmt.Sprintf("Sec-WebSocket-Key %q is not base64 of 16 bytes", key)
	}
	if prevKeys[key] {
		return fmt.Sprintf("Sec-WebSocket-Key %q was already used by an earlier handshake", key)
	}
	prevKeys[key] = true
	for k, v := range extra {
		if r.Header.Get(k) != v {
			return fmt.Sprintf("caller header %s: got %q want %q", k, r.Header.Get(k), v)
		}
	}
	// ... and only the caller's headers of THIS handshake: what an earlier handshake on the same stream was given
	// (a token, a cookie) is not sent again
	for k := range r.Header {
		if strings.HasPrefix(k, "X-Verif-") {
			if _, given := extra[k]; !given {
				return fmt.Sprintf("the request carries %s: %q, which this handshake was not given (a header of an earlier handshake on the same stream)", k, r.Header.Get(k))
			}
		}
	}
	return ""
}

// readClientFrames reads the next n frames the client put on the wire.
func readClientFrames(c net.Conn, n int) ([]rfc6455.Frame, error) {
	_ = c.SetReadDeadline(time.Now().Add(3 * time.Second))
	var buf []byte
	var out []rfc6455.Frame
	tmp := make([]byte, 4096)
	for {
		for len(out) < n {
			f, used, st := rfc6455.Parse(buf)
			if st != rfc6455.OK {
				break
			}
			out = append(out, f)
			buf = buf[used:]
		}
		if len(out) >= n {
			return out, nil
		}
		k, err := c.Read(tmp)
		buf = append(buf, tmp[:k]...)
		if err != nil && k == 0 {
			return out, err
		}
	}
}

func TestC18_Handshake(t *testing.T) {
	rec := evid.For("C18")
	rec.SetRule("rapid: 1..3 handshakes on one Stream against a raw TCP server in the harness; response = status {101 (two reason phrases), 200, 400, 426} x Upgrade {websocket in 3 spellings, missing, h2c, near misses: websockets, websocket2, xwebsocket, websocke, WebSocket-Draft76} x Sec-WebSocket-Accept {right, wrong, missing, near misses: letter case swapped, one letter's case flipped, truncated, padding removed} x header-name case x separator after the colon {' ', '', two spaces, tab, trailing space} x header order permutation x extra headers (incl. a 700..9000-byte cookie: heads larger than the client's initial 1 KiB buffer) x piggy-backed frames {none, 1..3 complete messages, last one cut after 1..6 bytes} x segmentation (1..3 cuts, 3 ms apart) x server ending the connection at byte j (full close, or only its own direction while it keeps watching the client's); blocking and asynchronous handshake; between handshakes the previous session may leave a queued Close(1002); oracle: request well-formed with a fresh 16-byte key and exactly the caller's headers of this handshake (none of an earlier one); success iff (101 and Upgrade: websocket and correct accept and response fully sent); failure => error, State()==Terminated and the server sees the client's end of the connection (not half-open); after success the messages read are exactly the piggy-backed ones followed by the later ones, and the first two frames the server receives are exactly the two the new session wrote; non-trivial = conforming response that is segmented or varied in case/whitespace with >=1 piggy-backed frame, or a second handshake on the same stream; distinct = hash of the plans")
	segKnown := known.Listed("C18", "response-single-read")
	vt.Check(t, 400, func(rt *rapid.T) {
		ln, err := net.Listen("tcp", "127.0.0.1:0")
		if err != nil {
			rt.Fatalf("INFRA: listen: %v", err)
		}
		defer ln.Close()
		addr := fmt.Sprintf("ws://%s/chat", ln.Addr().String())
		ioc, err := sonic.NewIO()
		if err != nil {
			rt.Fatalf("INFRA: NewIO: %v", err)
		}
		defer ioc.Close()
		s, err := websocket.NewWebsocketStream(ioc, nil, websocket.RoleClient)
		if err != nil {
			rt.Fatal(err)
		}
		rounds := rapid.IntRange(1, 3).Draw(rt, "rounds")
		prevKeys := map[string]bool{}
		var desc []string
		nt := false
		excluded := 0
		for round := 0; round < rounds; round++ {
			lbl := fmt.Sprintf("r%d.", round)
			p := genHsPlan(rt, lbl)
			if segKnown && (len(p.Cuts) > 0 || len(p.EndCuts) > 0) {
				excluded++
				p.Cuts, p.EndCuts = nil, nil
			}
			async := rapid.Bool().Draw(rt, lbl+"async")
			extraHdr := map[string]string{}
			var hdrs []websocket.Header
			if rapid.Bool().Draw(rt, lbl+"hdr") {
				extraHdr["X-Verif-Token"] = fmt.Sprintf("tok-%d", round)
				hdrs = append(hdrs, websocket.ExtraHeader(true, "X-Verif-Token", extraHdr["X-Verif-Token"]))
			}
			if rapid.IntRange(0, 2).Draw(rt, lbl+"hdr2") == 0 {
				name := rapid.SampledFrom([]string{"X-Verif-Session", "X-Verif-Api-Key"}).Draw(rt, lbl+"hdr2name")
				extraHdr[name] = fmt.Sprintf("v-%d", round)
				hdrs = append(hdrs, websocket.ExtraHeader(true, name, extraHdr[name]))
			}
			out := make(chan hsServerResult, 1)
			go serveOne(ln, p, out)
			var herr error
			if async {
				done := false
				s.AsyncHandshake(addr, func(err error) { done, herr = true, err }, hdrs...)
				deadline := time.Now().Add(6 * time.Second)
				for !done {
					_ = ioc.RunOneFor(2 * time.Millisecond)
					if time.Now().After(deadline) {
						rt.Fatalf("AsyncHandshake callback not invoked within 6 s; plan=%+v", p)
					}
				}
			}
			var sr hsServerResult
			if !async {
				hdone := make(chan error, 1)
				go func() { hdone <- s.Handshake(addr, hdrs...) }()
				select {
				case sr = <-out:
				case <-time.After(6 * time.Second):
					rt.Fatalf("INFRA: server goroutine stuck; plan=%+v", p)
				}
				select {
				case herr = <-hdone:
				case <-time.After(3 * time.Second):
					if sr.conn != nil {
						_ = sr.conn.Close()
					}
					rt.Fatalf("Handshake neither succeeded nor failed within 3 s after the server had sent its complete response (%d bytes head, cuts %v, end cuts %v): bytes of the response are not being recognised; plan=%+v", sr.respLen, p.Cuts, p.EndCuts, p)
				}
			} else {
				select {
				case sr = <-out:
				case <-time.After(6 * time.Second):
					rt.Fatalf("INFRA: server goroutine stuck; plan=%+v", p)
				}
			}
			closeServer := func() {
				if sr.conn != nil {
					_ = sr.conn.Close()
				}
			}
			desc = append(desc, fmt.Sprintf("{%s up=%q/%s acc=%s/%s sep=%q order=%v extra=%v pad=%d piggy=%d partial=%d cuts=%v endcuts=%v closeAt=%d async=%v}", p.Status, p.Upgrade, p.UpName, p.Accept, p.AcName, p.Sep, p.Order, p.Extra, p.Pad, len(p.Piggy), p.PartialCut, p.Cuts, p.EndCuts, p.CloseAt, async))
			if sr.request == nil {
				closeServer()
				rt.Fatalf("INFRA: the server saw no request: %v", sr.err)
			}
			if prob := checkRequest(sr.request, extraHdr, prevKeys); prob != "" {
				closeServer()
				rt.Fatalf("handshake #%d: %s", round, prob)
			}
			wantOK := p.Conforming && !(p.CloseAt >= 0 && p.CloseAt < sr.respLen)
			if wantOK != (herr == nil) {
				closeServer()
				rt.Fatalf("handshake #%d: conforming=%v (status %q, Upgrade %q, accept %s, closeAt %d of %d) but Handshake returned %v; plan=%s", round, wantOK, p.Status, p.Upgrade, p.Accept, p.CloseAt, sr.respLen, herr, desc[len(desc)-1])
			}
			varied := p.UpName != "Upgrade" || p.AcName != "Sec-WebSocket-Accept" || strings.Join(p.Sep, "") != strings.Repeat(" ", len(p.Sep)) || len(p.Cuts) > 0 || len(p.EndCuts) > 0
			if (wantOK && varied && len(p.Piggy) > 0) || round > 0 {
				nt = true
			}
			if herr != nil {
				if st := s.State(); st != websocket.StateTerminated {
					closeServer()
					rt.Fatalf("handshake #%d failed (%v) but State()=%v, want StateTerminated", round, herr, st)
				}
				// not half-open: the client has let go of the connection, the server sees its end (FIN or RST)
				if sr.conn != nil {
					_ = sr.conn.SetReadDeadline(time.Now().Add(vt.Patience(3 * time.Second)))
					tmp := make([]byte, 4096)
					for {
						if _, err := sr.conn.Read(tmp); err != nil {
							if ne, ok := err.(net.Error); ok && ne.Timeout() {
								vt.TimedOut()
								closeServer()
								_ = s.CloseNextLayer()
								rt.Fatalf("handshake #%d failed (%v) and the stream reports terminated, but 3 s later the client still holds its connection open (half-open); plan=%s", round, herr, desc[len(desc)-1])
							}
							break
						}
					}
				}
				_ = s.CloseNextLayer()
				closeServer()
				continue
			}
			if st := s.State(); st != websocket.StateActive {
				closeServer()
				rt.Fatalf("handshake #%d succeeded but State()=%v", round, st)
			}
			// the client writes first: the server must see exactly this frame first (a re-handshaken stream is fresh)
			hello := []byte(fmt.Sprintf("hello-%d", round))
			fence := []byte(fmt.Sprintf("fence-%d", round))
			if err := s.Write(hello, websocket.TypeText); err != nil {
				closeServer()
				rt.Fatalf("handshake #%d: first Write failed: %v", round, err)
			}
			if err := s.Write(fence, websocket.TypeBinary); err != nil {
				closeServer()
				rt.Fatalf("handshake #%d: second Write failed: %v", round, err)
			}
			fs, err := readClientFrames(sr.conn, 2)
			if err != nil || len(fs) != 2 || fs[0].Opcode != rfc6455.OpText || !bytes.Equal(fs[0].Payload, hello) || !fs[0].Masked ||
				fs[1].Opcode != rfc6455.OpBinary || !bytes.Equal(fs[1].Payload, fence) || !fs[1].Masked {
				closeServer()
				rt.Fatalf("handshake #%d: the first frames the server received are %v (err %v), the session wrote text %q and then binary %q and nothing else: leftovers of an earlier session on the wire", round, fs, err, hello, fence)
			}
			// later frames
			for _, m := range p.Later {
				_, _ = sr.conn.Write(rfc6455.Encode(rfc6455.Frame{Fin: true, Opcode: m.opcode(), Payload: m.Payload, LenBytes: -1}))
			}
			want := append(append([]wsMessage{}, p.Piggy...), p.Later...)
			buf := make([]byte, 1<<16)
			for i, m := range want {
				_ = s.NextLayer() // sync read through the adapter's net.Conn
				type rr struct {
					mt  websocket.MessageType
					n   int
					err error
				}
				ch := make(chan rr, 1)
				go func() {
					mt, n, err := s.NextMessage(buf)
					ch <- rr{mt, n, err}
				}()
				var r rr
				select {
				case r = <-ch:
				case <-time.After(4 * time.Second):
					closeServer()
					_ = s.CloseNextLayer()
					rt.Fatalf("handshake #%d: message %d of %d (%d piggy-backed) never arrived: bytes after the response were lost; plan=%s", round, i, len(want), len(p.Piggy), desc[len(desc)-1])
				}
				if r.err != nil || (r.mt == websocket.TypeBinary) != m.Binary || !bytes.Equal(buf[:r.n], m.Payload) {
					closeServer()
					_ = s.CloseNextLayer()
					rt.Fatalf("handshake #%d: message %d after the handshake: got type=%v n=%d err=%v %x.., want binary=%v %d bytes %x..; plan=%s", round, i, r.mt, r.n, r.err, head(buf[:max(r.n, 0)], 8), m.Binary, len(m.Payload), head(m.Payload, 8), desc[len(desc)-1])
				}
			}
			// end the session; optionally leave a queued Close(1002) behind (violation read, not flushed)
			if rapid.Bool().Draw(rt, lbl+"leaveQueued") {
				_, _ = sr.conn.Write(rfc6455.Encode(rfc6455.Frame{Fin: true, Rsv1: true, Opcode: rfc6455.OpText, Payload: []byte("x"), LenBytes: -1}))
				ch := make(chan error, 1)
				go func() { _, err := s.NextFrame(); ch <- err }()
				select {
				case <-ch:
				case <-time.After(4 * time.Second):
				}
			}
			_ = s.CloseNextLayer()
			closeServer()
		}
		rec.ExcludedKnown(excluded)
		cls := []string{fmt.Sprintf("rounds-%d", rounds)}
		rec.Case(strings.Join(desc, ";"), nt, cls, map[string]any{"handshakes": desc})
	})
}

var _ = io.EOF
