package ws

// C06, the cell "every split point ... together with the handshake response": a real opening handshake against a raw
// server that sends the first messages in the same bytes as (or right behind) its response, segmented anywhere -
// including inside the blank line that ends the response head. Everything after the head must arrive as messages.

import (
	"bytes"
	"fmt"
	"net"
	"strings"
	"testing"
	"time"

	"github.com/talostrading/sonic"
	"github.com/talostrading/sonic/codec/websocket"
	"pgregory.net/rapid"
	"verif/internal/evid"
	"verif/internal/rfc6455"
	"verif/internal/vt"
)

func TestC06_SessionBehindHandshake(t *testing.T) {
	rec := evid.For("C06")
	vt.Check(t, 120, func(rt *rapid.T) {
		ln, err := net.Listen("tcp", "127.0.0.1:0")
		if err != nil {
			rt.Fatalf("INFRA: listen: %v", err)
		}
		defer ln.Close()
		ioc, err := sonic.NewIO()
		if err != nil {
			rt.Fatalf("INFRA: NewIO: %v", err)
		}
		defer ioc.Close()
		s, err := websocket.NewWebsocketStream(ioc, nil, websocket.RoleClient)
		if err != nil {
			rt.Fatal(err)
		}
		p := hsPlan{CloseAt: -1, Status: "101 Switching Protocols", Upgrade: "websocket", UpName: "Upgrade", Accept: "right", AcName: "Sec-WebSocket-Accept",
			Sep: []string{" "}, Order: []int{0, 1, 2, 3, 4}, Conforming: true}
		p.Extra = rapid.Bool().Draw(rt, "extra")
		for i, n := 0, rapid.IntRange(1, 3).Draw(rt, "npiggy"); i < n; i++ {
			p.Piggy = append(p.Piggy, wsMessage{Binary: rapid.Bool().Draw(rt, "pbin"), Payload: genPayload(rt, 300, "piggy.")})
		}
		if rapid.IntRange(0, 2).Draw(rt, "partial") == 0 {
			p.PartialCut = rapid.IntRange(1, 6).Draw(rt, "pcut")
		}
		for i, n := 0, rapid.IntRange(0, 2).Draw(rt, "nlater"); i < n; i++ {
			p.Later = append(p.Later, wsMessage{Binary: rapid.Bool().Draw(rt, "lbin"), Payload: genPayload(rt, 300, "later.")})
		}
		switch rapid.IntRange(0, 3).Draw(rt, "seg") {
		case 0: // one segment
		case 1:
			p.Cuts = rapid.SliceOfNDistinct(rapid.IntRange(1, 400), 1, 3, func(i int) int { return i }).Draw(rt, "cuts")
		default: // around the end of the head
			p.EndCuts = rapid.SliceOfNDistinct(rapid.IntRange(-6, 8), 1, 3, func(i int) int { return i }).Draw(rt, "endcuts")
		}
		// In a third of the cases the Stream has been through a refused attempt before: a server answered the upgrade
		// request with an ordinary HTTP error whose body arrived together with the head. Nothing of that attempt may
		// reach the reader of the session that follows.
		refusedFirst := ""
		if rapid.IntRange(0, 2).Draw(rt, "refusedFirst") == 0 {
			body := rapid.OneOf(rapid.Just([]byte("upstream unavailable\n")), rapid.Just(rfc6455.Encode(rfc6455.Frame{Fin: true, Opcode: 2, Payload: []byte("stale"), LenBytes: -1})), rapid.SliceOfN(rapid.Byte(), 1, 200)).Draw(rt, "refusedBody")
			status := rapid.SampledFrom([]string{"503 Service Unavailable", "403 Forbidden", "200 OK", "101 Switching Protocols"}).Draw(rt, "refusedStatus")
			rl, err := net.Listen("tcp", "127.0.0.1:0")
			if err != nil {
				rt.Fatalf("INFRA: listen: %v", err)
			}
			go func() {
				c, err := rl.Accept()
				if err != nil {
					return
				}
				defer c.Close()
				_ = c.SetDeadline(time.Now().Add(3 * time.Second))
				var req []byte
				b := make([]byte, 4096)
				for !bytes.Contains(req, []byte("\r\n\r\n")) {
					n, err := c.Read(b)
					req = append(req, b[:n]...)
					if err != nil {
						return
					}
				}
				// (a 101 without Upgrade/Accept headers is refused as well)
				_, _ = c.Write(append([]byte(fmt.Sprintf("HTTP/1.1 %s\r\nContent-Length: %d\r\n\r\n", status, len(body))), body...))
				_, _ = c.Read(b) // until the client hangs up
			}()
			raddr := fmt.Sprintf("ws://%s/", rl.Addr().String())
			var rerr error
			if rapid.Bool().Draw(rt, "refusedAsync") {
				done := false
				s.AsyncHandshake(raddr, func(err error) { done, rerr = true, err })
				for deadline := time.Now().Add(5 * time.Second); !done && time.Now().Before(deadline); {
					_ = ioc.RunOneFor(2 * time.Millisecond)
				}
				if !done {
					rt.Fatalf("INFRA: AsyncHandshake against the refusing server never completed")
				}
			} else {
				rerr = s.Handshake(raddr)
			}
			_ = rl.Close()
			if rerr == nil {
				rt.Fatalf("INFRA: the handshake against a server answering %q without the upgrade headers succeeded (C18's subject)", status)
			}
			refusedFirst = fmt.Sprintf("%s+%dB body", status, len(body))
		}
		// In another sixth of the cases the Stream has had a session that was cut in the middle of a fragmented message:
		// the client read the first fragment (frame API), then the connection went away. The next session starts with
		// no message in progress.
		if refusedFirst == "" && rapid.IntRange(0, 4).Draw(rt, "interruptedFirst") == 0 {
			il, err := net.Listen("tcp", "127.0.0.1:0")
			if err != nil {
				rt.Fatalf("INFRA: listen: %v", err)
			}
			gone := make(chan struct{})
			go func() {
				c, err := il.Accept()
				if err != nil {
					return
				}
				defer c.Close()
				_ = c.SetDeadline(time.Now().Add(5 * time.Second))
				var req []byte
				b := make([]byte, 4096)
				for !bytes.Contains(req, []byte("\r\n\r\n")) {
					n, err := c.Read(b)
					req = append(req, b[:n]...)
					if err != nil {
						return
					}
				}
				key := ""
				for _, line := range strings.Split(string(req), "\r\n") {
					if i := strings.Index(line, ":"); i > 0 && strings.EqualFold(line[:i], "Sec-WebSocket-Key") {
						key = strings.TrimSpace(line[i+1:])
					}
				}
				_, _ = c.Write([]byte("HTTP/1.1 101 Switching Protocols\r\nUpgrade: websocket\r\nConnection: Upgrade\r\nSec-WebSocket-Accept: " + rfc6455.AcceptKey(key) + "\r\n\r\n"))
				_, _ = c.Write(rfc6455.Encode(rfc6455.Frame{Fin: false, Opcode: rfc6455.OpText, Payload: []byte("first fragment of a message that never ends"), LenBytes: -1}))
				<-gone
			}()
			if err := s.Handshake(fmt.Sprintf("ws://%s/", il.Addr().String())); err != nil {
				rt.Fatalf("INFRA: handshake of the interrupted session: %v", err)
			}
			fch := make(chan error, 1)
			go func() {
				f, err := s.NextFrame()
				if err == nil && (f.IsFIN() || !f.Opcode().IsText()) {
					err = fmt.Errorf("unexpected frame %v", f)
				}
				fch <- err
			}()
			select {
			case err := <-fch:
				if err != nil {
					rt.Fatalf("INFRA: reading the first fragment of the interrupted session: %v", err)
				}
			case <-time.After(5 * time.Second):
				rt.Fatalf("INFRA: the first fragment of the interrupted session never arrived")
			}
			_ = s.CloseNextLayer() // the connection goes away in the middle of the message
			close(gone)
			_ = il.Close()
			refusedFirst = "interrupted mid-message"
		}
		async := rapid.Bool().Draw(rt, "async")
		desc := fmt.Sprintf("refusedFirst=%q piggy=%d partial=%d later=%d cuts=%v endcuts=%v extra=%v async=%v", refusedFirst, len(p.Piggy), p.PartialCut, len(p.Later), p.Cuts, p.EndCuts, p.Extra, async)
		_ = refusedFirst
		out := make(chan hsServerResult, 1)
		go serveOne(ln, p, out)
		addr := fmt.Sprintf("ws://%s/", ln.Addr().String())
		var herr error
		var sr hsServerResult
		if async {
			done := false
			s.AsyncHandshake(addr, func(err error) { done, herr = true, err })
			deadline := time.Now().Add(vt.Patience(8 * time.Second))
			for !done {
				_ = ioc.RunOneFor(2 * time.Millisecond)
				if time.Now().After(deadline) {
					vt.TimedOut()
					rt.Fatalf("AsyncHandshake callback not invoked within 8 s of a complete conforming response; %s", desc)
				}
			}
			select {
			case sr = <-out:
			case <-time.After(6 * time.Second):
				rt.Fatalf("INFRA: server goroutine stuck; %s", desc)
			}
		} else {
			hdone := make(chan error, 1)
			go func() { hdone <- s.Handshake(addr) }()
			select {
			case sr = <-out:
			case <-time.After(6 * time.Second):
				rt.Fatalf("INFRA: server goroutine stuck; %s", desc)
			}
			select {
			case herr = <-hdone:
			case <-time.After(vt.Patience(4 * time.Second)):
				vt.TimedOut()
				if sr.conn != nil {
					_ = sr.conn.Close()
				}
				rt.Fatalf("Handshake did not return within 4 s after the server had sent its complete conforming response (%d bytes head) and the first messages: the end of the response is not recognised; %s", sr.respLen, desc)
			}
		}
		defer func() {
			_ = s.CloseNextLayer()
			if sr.conn != nil {
				_ = sr.conn.Close()
			}
		}()
		if sr.err != nil || sr.conn == nil {
			rt.Fatalf("INFRA: server: %v", sr.err)
		}
		if herr != nil {
			rt.Fatalf("handshake with a conforming response failed: %v; %s", herr, desc)
		}
		for _, m := range p.Later {
			_, _ = sr.conn.Write(rfc6455.Encode(rfc6455.Frame{Fin: true, Opcode: m.opcode(), Payload: m.Payload, LenBytes: -1}))
		}
		want := append(append([]wsMessage{}, p.Piggy...), p.Later...)
		buf := make([]byte, 1<<16)
		for i, m := range want {
			type rr struct {
				mt  websocket.MessageType
				n   int
				err error
			}
			var r rr
			if async {
				got := false
				s.AsyncNextMessage(buf, func(err error, n int, mt websocket.MessageType) { got, r = true, rr{mt, n, err} })
				deadline := time.Now().Add(vt.Patience(6 * time.Second))
				for !got {
					_ = ioc.RunOneFor(2 * time.Millisecond)
					if time.Now().After(deadline) {
						vt.TimedOut()
						rt.Fatalf("message %d of %d (%d sent with the response) never arrived: bytes behind the response head were lost; %s", i, len(want), len(p.Piggy), desc)
					}
				}
			} else {
				ch := make(chan rr, 1)
				go func() {
					mt, n, err := s.NextMessage(buf)
					ch <- rr{mt, n, err}
				}()
				select {
				case r = <-ch:
				case <-time.After(vt.Patience(6 * time.Second)):
					vt.TimedOut()
					rt.Fatalf("message %d of %d (%d sent with the response) never arrived: bytes behind the response head were lost; %s", i, len(want), len(p.Piggy), desc)
				}
			}
			if r.err != nil || (r.mt == websocket.TypeBinary) != m.Binary || !bytes.Equal(buf[:max(r.n, 0)], m.Payload) {
				rt.Fatalf("message %d behind the handshake: got type=%v n=%d err=%v %x.., want binary=%v %d bytes %x..; %s", i, r.mt, r.n, r.err, head(buf[:max(r.n, 0)], 8), m.Binary, len(m.Payload), head(m.Payload, 8), desc)
			}
		}
		// epilogue (asynchronous API): the maximum message size is raised while a read is waiting on the transport - a
		// setting, not a message - and the next message must still reach that read unchanged
		raised := 0
		if async && rapid.Bool().Draw(rt, "raiseMaxWhileReading") {
			raised = rapid.SampledFrom([]int{5000, 8192, 70000, 1 << 20}).Draw(rt, "newMax")
			nmsg := rapid.IntRange(1, 3).Draw(rt, "afterRaise")
			for k := 0; k < nmsg; k++ {
				m := wsMessage{Binary: rapid.Bool().Draw(rt, "rbin"), Payload: genPayload(rt, 300, "raised.")}
				got := false
				var rn int
				var rmt websocket.MessageType
				var rerr error
				s.AsyncNextMessage(buf, func(err error, n int, mt websocket.MessageType) { got, rerr, rn, rmt = true, err, n, mt })
				if got {
					rt.Fatalf("a read completed (%v, n=%d) although the server has sent nothing more; %s", rerr, rn, desc)
				}
				if k == 0 {
					s.SetMaxMessageSize(raised)
				}
				_, _ = sr.conn.Write(rfc6455.Encode(rfc6455.Frame{Fin: true, Opcode: m.opcode(), Payload: m.Payload, LenBytes: -1}))
				deadline := time.Now().Add(vt.Patience(6 * time.Second))
				for !got {
					_ = ioc.RunOneFor(2 * time.Millisecond)
					if time.Now().After(deadline) {
						vt.TimedOut()
						rt.Fatalf("message %d sent after SetMaxMessageSize(%d) was called with a read pending never arrived; %s", k, raised, desc)
					}
				}
				if rerr != nil || (rmt == websocket.TypeBinary) != m.Binary || !bytes.Equal(buf[:max(rn, 0)], m.Payload) {
					rt.Fatalf("message %d after SetMaxMessageSize(%d) with a read pending: got type=%v n=%d err=%v %x.., want binary=%v %d bytes %x..; %s", k, raised, rmt, rn, rerr, head(buf[:max(rn, 0)], 8), m.Binary, len(m.Payload), head(m.Payload, 8), desc)
				}
			}
		}
		cls := []string{"behind-handshake"}
		if raised > 0 {
			cls = append(cls, "max-size-raised-with-a-read-pending")
		}
		inTerm := false
		for _, e := range p.EndCuts {
			if e >= -3 && e <= -1 {
				inTerm = true
			}
		}
		if inTerm {
			cls = append(cls, "cut-inside-the-final-CRLFCRLF")
		}
		if refusedFirst != "" {
			cls = append(cls, "after-a-previous-life:"+strings.SplitN(refusedFirst, "+", 2)[0])
		}
		rec.Case("hs:"+desc+fmt.Sprintf("|%x", head(want[0].Payload, 6)), len(p.Cuts)+len(p.EndCuts) > 0, cls, map[string]any{"plan": desc})
	})
}

var _ = strings.Join
