package ws

// C15, "... and refuses further application writes", asked while an earlier application write is still in flight on the
// transport: the violation is read and handled during that window, and a write submitted right after it - from the
// read's own callback, typically - must be refused like any other.

import (
	"bytes"
	"fmt"
	"testing"

	"github.com/talostrading/sonic/codec/websocket"
	"pgregory.net/rapid"
	"verif/internal/evid"
	"verif/internal/memstream"
	"verif/internal/rfc6455"
	"verif/internal/vt"
)

func TestC15_WriteRefusedWhileAFlushIsInFlight(t *testing.T) {
	rec := evid.For("C15")
	rec.SetRule("write in flight: 1..2 application writes are started and left in flight on the scripted transport (completions parked), an asynchronous read (AsyncNextFrame/AsyncNextMessage) that was waiting on the transport before them is handed a framing violation, and 1..2 writes (AsyncWrite, AsyncWriteFrame) are submitted from its callback, before the parked completions are delivered: each of them is refused with an error and its bytes never reach the wire; the writes submitted before the violation complete once; exactly one Close(1002) follows them on the wire; non-trivial = a write submitted while the earlier one was still in flight")
	vt.Check(t, 300, func(t *rapid.T) {
		ms := memstream.New(nil)
		ms.Inline = func(write bool) bool { return !write } // reads complete at once, writes stay in flight until Deliver
		s, err := newAttached(70000, ms)
		if err != nil {
			t.Fatalf("attach: %v", err)
		}
		// (the blocking calls are not mixed with an asynchronous flush in flight: DESIGN.md section 7)
		api := rapid.SampledFrom([]string{"AsyncNextFrame", "AsyncNextMessage"}).Draw(t, "api")
		async := api == "AsyncNextFrame" || api == "AsyncNextMessage"
		buf := make([]byte, 4096)
		var rerr error
		type late struct {
			kind  string
			calls int
			err   error
		}
		var lates []*late
		nLate := rapid.IntRange(1, 2).Draw(t, "lateWrites")
		lateKinds := make([]string, nLate)
		for i := range lateKinds {
			lateKinds[i] = rapid.SampledFrom([]string{"AsyncWrite", "AsyncWriteFrame"}).Draw(t, "lateKind")
		}
		submitLate := func() {
			for _, k := range lateKinds {
				l := &late{kind: k}
				lates = append(lates, l)
				p := []byte("late-" + k)
				switch k {
				case "AsyncWrite":
					s.AsyncWrite(p, websocket.TypeText, func(err error) { l.calls++; l.err = err })
				case "AsyncWriteFrame":
					f := s.AcquireFrame()
					f.SetFIN().SetText().SetPayload(p)
					s.AsyncWriteFrame(f, func(err error) { l.calls++; l.err = err })
				default:
					l.err = s.Write(p, websocket.TypeText)
					l.calls = 1
				}
			}
		}
		asyncDone := 0
		if async {
			// the asynchronous read is waiting on the transport before the application starts writing (the usual state of a
			// callback-driven client); its completion is delivered first, while the writes are still in flight
			ms.Inline = func(bool) bool { return false }
			onErr := func(err error) {
				asyncDone++
				rerr = err
				if err != nil {
					submitLate() // from the callback that was handed the violation
				}
			}
			if api == "AsyncNextFrame" {
				s.AsyncNextFrame(func(err error, _ websocket.Frame) { onErr(err) })
			} else {
				s.AsyncNextMessage(buf, func(err error, _ int, _ websocket.MessageType) { onErr(err) })
			}
		}
		nEarly := rapid.IntRange(1, 2).Draw(t, "earlyWrites")
		earlyDone := make([]int, nEarly)
		var want []outItem
		for i := 0; i < nEarly; i++ {
			i := i
			p := []byte(fmt.Sprintf("early-%d", i))
			s.AsyncWrite(p, websocket.TypeText, func(err error) {
				earlyDone[i]++
				if err != nil {
					t.Fatalf("write #%d submitted on an open stream completed with %v", i, err)
				}
			})
			want = append(want, outItem{op: rfc6455.OpText, fin: true, payload: p, what: fmt.Sprintf("early write #%d", i)})
		}
		if ms.Parked() == 0 {
			t.Fatalf("INFRA: the early write is not in flight")
		}
		nconf := rapid.IntRange(0, 2).Draw(t, "conforming")
		if async {
			nconf = 0 // one asynchronous read is outstanding: it is the one that meets the violation
		}
		for i := 0; i < nconf; i++ {
			ms.Feed(rfc6455.Encode(rfc6455.Frame{Fin: true, Opcode: rfc6455.OpBinary, Payload: []byte{byte(i), 7}, LenBytes: -1}))
		}
		bad := rfc6455.Frame{Fin: true, Opcode: rfc6455.OpText, Payload: append(append([]byte{}, marker...), 'x'), LenBytes: -1}
		kind := rapid.SampledFrom([]string{"rsv1", "rsv3", "masked", "reserved-opcode"}).Draw(t, "violation")
		switch kind {
		case "rsv1":
			bad.Rsv1 = true
		case "rsv3":
			bad.Rsv3 = true
		case "masked":
			bad.Masked, bad.Key = true, [4]byte{1, 2, 3, 4}
		case "reserved-opcode":
			bad.Opcode = byte(rapid.SampledFrom([]int{3, 7, 11, 15}).Draw(t, "rop"))
		}
		ms.Feed(rfc6455.Encode(bad))
		if async {
			if !ms.Deliver() || asyncDone != 1 {
				t.Fatalf("INFRA: delivering the read completion did not complete the read (done=%d)", asyncDone)
			}
		}
		for reads := 0; !async && reads < 6 && rerr == nil; reads++ {
			if api == "NextFrame" {
				_, rerr = s.NextFrame()
			} else {
				_, _, rerr = s.NextMessage(buf)
			}
		}
		if rerr == nil {
			t.Fatalf("%s: no error although the stream contains a %s violation", api, kind)
		}
		if len(lates) == 0 {
			submitLate() // right after the blocking read returned the error
		}
		stillInFlight := ms.Parked() > 0
		ms.DeliverAll(1000)
		_ = s.Flush()
		ms.DeliverAll(1000)
		desc := fmt.Sprintf("%s violation=%s early=%d late=%v", api, kind, nEarly, lateKinds)
		for i, c := range earlyDone {
			if c != 1 {
				t.Fatalf("%s: callback of early write #%d ran %d times", desc, i, c)
			}
		}
		for _, l := range lates {
			if l.calls != 1 {
				t.Fatalf("%s: callback of the late %s ran %d times", desc, l.kind, l.calls)
			}
			if l.err == nil {
				t.Fatalf("%s: a %s submitted after the read had reported the protocol violation (State()=%v) was accepted: application writes are refused from then on, also while an earlier write is still in flight", desc, l.kind, s.State())
			}
		}
		frames, rest := rfc6455.ParseAll(ms.Out)
		if len(rest) != 0 {
			t.Fatalf("%s: %d unparsable bytes on the wire", desc, len(rest))
		}
		closes := 0
		for i, f := range frames {
			if bytes.HasPrefix(f.Payload, []byte("late-")) {
				t.Fatalf("%s: the refused write reached the wire as frame #%d: %v", desc, i, f)
			}
			if f.Opcode == rfc6455.OpClose {
				closes++
				if len(f.Payload) < 2 || f.Payload[0] != 0x03 || f.Payload[1] != 0xea {
					t.Fatalf("%s: Close frame carries %x, want status 1002", desc, f.Payload)
				}
			}
		}
		if closes != 1 {
			t.Fatalf("%s: %d Close frames on the wire, want one with status 1002; frames=%v", desc, closes, frames)
		}
		var data []rfc6455.Frame
		for _, f := range frames {
			if f.Opcode != rfc6455.OpClose {
				data = append(data, f)
			}
		}
		if len(data) != len(want) {
			t.Fatalf("%s: %d data frames on the wire, %d writes were submitted before the violation; frames=%v", desc, len(data), len(want), frames)
		}
		for i, f := range data {
			if !bytes.Equal(f.Payload, want[i].payload) {
				t.Fatalf("%s: data frame #%d is %v, want %s", desc, i, f, want[i].what)
			}
		}
		rec.Case("inflight|"+desc, stillInFlight, []string{"write-refused-while-a-flush-is-in-flight", "mutation:" + kind}, map[string]any{"case": desc})
	})
}
