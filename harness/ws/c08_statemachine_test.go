package ws

// C08 — ping/pong and the closing handshake follow the RFC 6455 state machine.

import (
	"bytes"
	"fmt"
	"io"
	"strings"
	"testing"

	"github.com/talostrading/sonic/codec/websocket"
	"pgregory.net/rapid"
	"verif/internal/evid"
	"verif/internal/known"
	"verif/internal/memstream"
	"verif/internal/rfc6455"
	"verif/internal/vt"
)

type epState int

const (
	epOpen epState = iota
	epClosingByUs
	epClosedByPeer
	epAcked
	epTerminated
)

func (s epState) String() string {
	return [...]string{"open", "closing-by-us", "closed-by-peer", "acked", "terminated"}[s]
}

func allowedStates(s epState) []websocket.StreamState {
	switch s {
	case epOpen:
		return []websocket.StreamState{websocket.StateActive}
	case epClosingByUs:
		return []websocket.StreamState{websocket.StateClosedByUs}
	case epClosedByPeer:
		return []websocket.StreamState{websocket.StateClosedByPeer, websocket.StateTerminated}
	case epAcked:
		return []websocket.StreamState{websocket.StateCloseAcked, websocket.StateTerminated}
	}
	return []websocket.StreamState{websocket.StateTerminated}
}

type inFrame struct {
	f    rfc6455.Frame
	kind string // data ping pong close close-empty close-invalid violation
}

type expOut struct {
	op       byte
	payload  []byte
	codeOnly bool // close reply: only the status code is compared
	optional bool
	what     string
}

// epModel is the reference RFC 6455 endpoint.
type epModel struct {
	state    epState
	inbound  []inFrame
	terminal error // what the transport reports once inbound is exhausted
	out      []expOut
	closes   int
	midMsg   bool // the frame API consumed a fragment whose message is not finished yet
}

func (m *epModel) queueClose(code uint16, codeOnly bool, payload []byte, what string) {
	m.closes++
	if payload == nil {
		payload = rfc6455.ClosePayload(code, "")
	}
	m.out = append(m.out, expOut{op: rfc6455.OpClose, payload: payload, codeOnly: codeOnly, what: what})
}

type readResult struct {
	eof      bool // end-of-stream reported
	err      bool // some error reported
	anyErr   bool // error or not: unspecified
	frame    *rfc6455.Frame
	msg      *wsMessage
	ctl      []wsEvent
	terminal bool // the injected transport error was hit: history stops
}

// apply processes one inbound frame; returns (violation, delivered)
func (m *epModel) process(f inFrame) (violation bool) {
	switch f.kind {
	case "violation":
		if m.state == epOpen {
			m.state = epClosingByUs
			m.queueClose(1002, true, nil, "close 1002 after a framing violation")
		}
		return true
	case "ping":
		if m.state == epOpen {
			m.out = append(m.out, expOut{op: rfc6455.OpPong, payload: f.f.Payload, what: "pong"})
		} else {
			m.out = append(m.out, expOut{op: rfc6455.OpPong, payload: f.f.Payload, optional: true, what: "pong while closing (unspecified)"})
		}
	case "close", "close-empty", "close-invalid":
		switch m.state {
		case epOpen:
			m.state = epClosedByPeer
			switch f.kind {
			case "close":
				m.queueClose(uint16(f.f.Payload[0])<<8|uint16(f.f.Payload[1]), true, f.f.Payload[:2], "close echo")
			case "close-empty":
				m.queueClose(1000, true, nil, "close 1000 reply to an empty close")
			default:
				m.queueClose(1002, true, nil, "close 1002 reply to an invalid close")
			}
		case epClosingByUs:
			m.state = epAcked
		}
	}
	return false
}

func (m *epModel) readable() bool { return m.state == epOpen || m.state == epClosingByUs }

func (m *epModel) readFrame() readResult {
	if !m.readable() {
		return readResult{eof: true}
	}
	if len(m.inbound) == 0 {
		if m.terminal == io.EOF {
			m.state = epTerminated
			return readResult{eof: true, frame: &rfc6455.Frame{Fin: true, Opcode: rfc6455.OpClose, Payload: rfc6455.ClosePayload(1006, "")}}
		}
		return readResult{err: true, terminal: true}
	}
	f := m.inbound[0]
	m.inbound = m.inbound[1:]
	if m.process(f) {
		return readResult{err: true}
	}
	fr := f.f
	if !rfc6455.IsControl(fr.Opcode) {
		m.midMsg = !fr.Fin
	}
	r := readResult{frame: &fr}
	if f.kind == "close-invalid" {
		r.anyErr = true
	}
	return r
}

func (m *epModel) readMessage() readResult {
	var r readResult
	var acc []byte
	var op byte
	started := false
	for {
		if !m.readable() {
			r.eof = true
			return r
		}
		if len(m.inbound) == 0 {
			if m.terminal == io.EOF {
				m.state = epTerminated
				r.eof = true
				return r
			}
			r.err, r.terminal = true, true
			return r
		}
		f := m.inbound[0]
		m.inbound = m.inbound[1:]
		if m.process(f) {
			r.err = true
			return r
		}
		if rfc6455.IsControl(f.f.Opcode) {
			r.ctl = append(r.ctl, wsEvent{Kind: "ctl", Op: f.f.Opcode, Fin: true, Payload: f.f.Payload})
			if f.kind == "close-invalid" {
				r.anyErr = true
			}
			continue
		}
		if !started {
			op = f.f.Opcode
			started = true
		}
		acc = append(acc, f.f.Payload...)
		if f.f.Fin {
			r.msg = &wsMessage{Binary: op == rfc6455.OpBinary, Payload: acc}
			return r
		}
	}
}

func matchWire(out []byte, exp []expOut) string {
	frames, rest := rfc6455.ParseAll(out)
	if len(rest) != 0 {
		return fmt.Sprintf("wire has %d unparsable trailing bytes", len(rest))
	}
	closes := 0
	closeSeen := false
	for i, f := range frames {
		if f.Opcode == rfc6455.OpClose {
			closes++
			closeSeen = true
		} else if closeSeen && !rfc6455.IsControl(f.Opcode) {
			return fmt.Sprintf("data frame #%d %v on the wire after the client's Close frame", i, f)
		}
	}
	if closes > 1 {
		return fmt.Sprintf("%d Close frames on the wire: %v", closes, frames)
	}
	j := 0
	for i, f := range frames {
		for j < len(exp) && exp[j].optional && !(exp[j].op == f.Opcode && bytes.Equal(exp[j].payload, f.Payload)) {
			j++
		}
		if j >= len(exp) {
			return fmt.Sprintf("unexpected frame #%d on the wire: %v (all %d expected frames already matched)", i, f, len(exp))
		}
		e := exp[j]
		ok := e.op == f.Opcode && f.Fin
		if ok && e.codeOnly {
			ok = len(f.Payload) >= 2 && bytes.Equal(f.Payload[:2], e.payload[:2])
		} else if ok {
			ok = bytes.Equal(f.Payload, e.payload)
		}
		if !ok {
			return fmt.Sprintf("wire frame #%d is %v, expected %s (op=%d payload=%x)", i, f, e.what, e.op, head(e.payload, 10))
		}
		j++
	}
	for ; j < len(exp); j++ {
		if !exp[j].optional {
			return fmt.Sprintf("expected %s (op=%d payload=%x) never reached the wire; wire has %d frames", exp[j].what, exp[j].op, head(exp[j].payload, 10), len(frames))
		}
	}
	return ""
}

func TestC08_CloseAndPingStateMachine(t *testing.T) {
	rec := evid.For("C08")
	rec.SetRule("rapid histories (<=25 steps) over peer events {data (1-2 fragments, with 0..2 pings/pongs between the fragments; frames are fed whole, cut in two segments, or with their first segment glued to the end of the previous one), ping, pong, close(valid code+reason), close(empty), close(1-byte | invalid code | bad UTF-8 reason), framing violation, transport EOF, transport error, truncated frame} and local calls {NextFrame, AsyncNextFrame, NextMessage, AsyncNextMessage, Write, AsyncWrite, WriteFrame, AsyncWriteFrame, Flush, AsyncFlush, Close, AsyncClose} on a scripted transport; reference RFC 6455 endpoint model predicts every read result, every refused/accepted write, the allowed State() set and the exact outbound frame list (parsed by an independent parser): one Pong per Ping while open with identical payload in order, one Close per connection echoing the code / 1000 / 1002, nothing but optional pongs after it; a blocking read never returns to the transport for more bytes while a reply it queued is unsent; non-trivial = the history reaches closing-by-us or closed-by-peer and has >=1 event after the transition, OR >=2 pings answered while open with application frames written in between; TestC08_CloseReplyCodes: a peer Close sent to an open stream with status codes swept over 0..65535 (weighted to 999..1016, 2999..3001, 4999..5001; 1014 left out) in the forms code / code+reason / code+invalid UTF-8 / empty / one byte, read through each API: exactly one Close reply with the echoed code when that code may appear on the wire, 1000 for the empty payload, 1002 otherwise, then State()!=active and Write refused; non-trivial there = a 1002 reply or a reserved code (1004/1005/1006/1015); distinct = hash of the history")
	rec.Assume("the control callback performs no stream calls; one read and one write outstanding at a time; after an injected non-EOF transport error the history stops (behaviour unspecified by the property)")
	doubleCloseKnown := known.Listed("C08", "second-close-after-violation")
	vt.CheckSteps(t, 2000, 18, func(t *rapid.T) {
		max := 4096
		ms := memstream.New(nil)
		pattern := rapid.SliceOfN(rapid.Bool(), 1, 6).Draw(t, "inline")
		k := 0
		ms.Inline = func(bool) bool { k++; return pattern[k%len(pattern)] }
		m := &epModel{terminal: io.EOF}
		if rapid.IntRange(0, 4).Draw(t, "terminal") == 0 {
			m.terminal = memstream.ErrInjected
		}
		ms.InErr = m.terminal
		s, err := newAttached(max, ms)
		if err != nil {
			t.Fatalf("attach: %v", err)
		}
		var ctlGot []wsEvent
		s.SetControlCallback(func(mt websocket.MessageType, p []byte) {
			ctlGot = append(ctlGot, wsEvent{Kind: "ctl", Op: byte(mt), Fin: true, Payload: append([]byte(nil), p...)})
		})
		var trace []string
		stopped := false
		transitionAt, eventsAfter := -1, 0
		pingsSinceFlush, twoPings := 0, false
		excluded := 0
		buf := make([]byte, max+16)

		// an AsyncClose whose transport write has not been delivered yet (the Close frame is "in flight")
		var pendingCloseDone *int
		var pendingBurst []*int // completions of writes submitted just before an AsyncClose that was left in flight
		var pendingCloseErr *error
		deliverUntil := func(done *int, what string) {
			for d := 0; *done == 0; d++ {
				if !ms.Deliver() {
					t.Fatalf("%s: callback not invoked and nothing outstanding on the transport; trace=%v", what, trace)
				}
				if d > 10000 {
					t.Fatalf("%s: no completion; trace=%v", what, trace)
				}
			}
			if *done != 1 {
				t.Fatalf("%s: callback invoked %d times; trace=%v", what, *done, trace)
			}
		}
		settleClose := func() {
			if pendingCloseDone != nil {
				d, e := pendingCloseDone, pendingCloseErr
				pendingCloseDone, pendingCloseErr = nil, nil
				for _, b := range pendingBurst {
					deliverUntil(b, "AsyncWrite submitted before the close (delivered later)")
				}
				pendingBurst = nil
				deliverUntil(d, "AsyncClose (delivered later)")
				if *e != nil {
					t.Fatalf("AsyncClose completed with %v; trace=%v", *e, trace)
				}
				trace = append(trace, "close-delivered")
			}
		}
		noteEvent := func() {
			if transitionAt >= 0 {
				eventsAfter++
			} else if m.state == epClosingByUs || m.state == epClosedByPeer {
				transitionAt = len(trace)
			}
		}
		checkState := func() {
			got := s.State()
			for _, a := range allowedStates(m.state) {
				if got == a {
					return
				}
			}
			t.Fatalf("State()=%v while the model is %v (allowed %v); trace=%v", got, m.state, allowedStates(m.state), trace)
		}
		feed := func(f inFrame) {
			wire := rfc6455.Encode(f.f)
			first, rest := wire, []byte(nil)
			if len(wire) > 2 && rapid.Bool().Draw(t, "split") {
				c := rapid.IntRange(1, len(wire)-1).Draw(t, "at")
				first, rest = append([]byte(nil), wire[:c]...), append([]byte(nil), wire[c:]...)
			}
			// the first bytes of this frame may arrive in the same segment as the end of what the peer sent before
			if !(rapid.IntRange(0, 2).Draw(t, "coalesce") == 0 && ms.AppendToLast(first)) {
				ms.Feed(first)
			}
			if rest != nil {
				ms.Feed(rest)
			}
			m.inbound = append(m.inbound, f)
		}
		smallPayload := func(lbl string, maxLen int) []byte {
			n := rapid.IntRange(0, maxLen).Draw(t, lbl)
			p := make([]byte, n)
			fill := byte(rapid.IntRange(1, 255).Draw(t, lbl+"fill"))
			for i := range p {
				p[i] = fill + byte(i)
			}
			return p
		}
		peer := func(t *rapid.T) {
			if stopped {
				return
			}
			kind := rapid.SampledFrom([]string{"data", "data", "ping", "ping", "ping", "pong", "close", "close-empty", "close-invalid", "violation"}).Draw(t, "peer")
			switch kind {
			case "data":
				op := byte(rapid.SampledFrom([]int{rfc6455.OpText, rfc6455.OpBinary}).Draw(t, "op"))
				p := smallPayload("len", 200)
				if len(p) > 1 && rapid.Bool().Draw(t, "frag") {
					c := rapid.IntRange(0, len(p)).Draw(t, "fcut")
					feed(inFrame{kind: "data", f: rfc6455.Frame{Fin: false, Opcode: op, Payload: p[:c], LenBytes: -1}})
					// control frames may be injected in the middle of a fragmented message (RFC 6455 5.4)
					for i, nb := 0, rapid.SampledFrom([]int{0, 0, 1, 1, 2}).Draw(t, "between"); i < nb; i++ {
						if rapid.IntRange(0, 3).Draw(t, "betweenKind") == 0 {
							feed(inFrame{kind: "pong", f: rfc6455.Frame{Fin: true, Opcode: rfc6455.OpPong, Payload: smallPayload("blen", 20), LenBytes: -1}})
						} else {
							feed(inFrame{kind: "ping", f: rfc6455.Frame{Fin: true, Opcode: rfc6455.OpPing, Payload: smallPayload("blen", 125), LenBytes: -1}})
						}
						kind = "data+control-between-fragments"
					}
					feed(inFrame{kind: "data", f: rfc6455.Frame{Fin: true, Opcode: rfc6455.OpContinuation, Payload: p[c:], LenBytes: -1}})
				} else {
					feed(inFrame{kind: "data", f: rfc6455.Frame{Fin: true, Opcode: op, Payload: p, LenBytes: -1}})
				}
			case "ping":
				feed(inFrame{kind: "ping", f: rfc6455.Frame{Fin: true, Opcode: rfc6455.OpPing, Payload: smallPayload("len", 125), LenBytes: -1}})
			case "pong":
				feed(inFrame{kind: "pong", f: rfc6455.Frame{Fin: true, Opcode: rfc6455.OpPong, Payload: smallPayload("len", 125), LenBytes: -1}})
			case "close":
				code := rapid.SampledFrom([]uint16{1000, 1001, 1002, 1003, 1007, 1008, 1009, 1010, 1011, 1012, 1013, 3000, 4999}).Draw(t, "code")
				reason := rapid.SampledFrom([]string{"", "bye", "größe", strings.Repeat("r", 123)}).Draw(t, "reason")
				feed(inFrame{kind: "close", f: rfc6455.Frame{Fin: true, Opcode: rfc6455.OpClose, Payload: rfc6455.ClosePayload(code, reason), LenBytes: -1}})
			case "close-empty":
				feed(inFrame{kind: "close-empty", f: rfc6455.Frame{Fin: true, Opcode: rfc6455.OpClose, LenBytes: -1}})
			case "close-invalid":
				var p []byte
				switch rapid.IntRange(0, 2).Draw(t, "how") {
				case 0:
					p = []byte{0x03}
				case 1:
					code := rapid.SampledFrom([]uint16{0, 999, 1004, 1005, 1005, 1006, 1006, 1015, 1015, 1016, 2999, 5000, 65535}).Draw(t, "badcode")
					p = rfc6455.ClosePayload(code, "x")
				default:
					p = append(rfc6455.ClosePayload(1000, ""), 0xff, 0xfe, 0xc0)
				}
				feed(inFrame{kind: "close-invalid", f: rfc6455.Frame{Fin: true, Opcode: rfc6455.OpClose, Payload: p, LenBytes: -1}})
			case "violation":
				f := rfc6455.Frame{Fin: true, Opcode: rfc6455.OpText, Payload: smallPayload("len", 20), LenBytes: -1}
				switch rapid.IntRange(0, 3).Draw(t, "how") {
				case 0:
					f.Rsv1 = true
				case 1:
					f.Rsv3 = true
				case 2:
					f.Masked = true
					f.Key = [4]byte{1, 2, 3, 4}
				default:
					f.Opcode = byte(rapid.SampledFrom([]int{3, 7, 11, 15}).Draw(t, "rop"))
				}
				feed(inFrame{kind: "violation", f: f})
			}
			trace = append(trace, "peer:"+kind)
		}
		read := func(t *rapid.T) {
			if stopped {
				return
			}
			api := rapid.SampledFrom(readAPIs).Draw(t, "api")
			if m.midMsg && (api == "NextMessage" || api == "AsyncNextMessage") {
				// a caller that took a fragment through the frame API finishes that message through the frame API
				api = "Async" + strings.TrimPrefix(strings.Replace(api, "Message", "Frame", 1), "Async")
				if rapid.Bool().Draw(t, "syncframe") {
					api = "NextFrame"
				}
			}
			// known finding: a violation (or a second one) read while already closing-by-us queues another Close
			if doubleCloseKnown && m.state == epClosingByUs {
				for _, f := range m.inbound {
					if f.kind == "violation" {
						excluded++
						return
					}
				}
			}
			if api == "NextFrame" || api == "NextMessage" {
				settleClose() // the blocking APIs are not mixed with an asynchronous flush in flight
			}
			ctlGot = nil
			var exp readResult
			var gotErr error
			var gotFrame *rfc6455.Frame
			var gotMsg *wsMessage
			frameAPI := api == "NextFrame" || api == "AsyncNextFrame"
			// every read first flushes what earlier reads queued (pongs, a close reply): a peer whose application only
			// reads still gets its answers
			queuedBefore := 0
			for _, e := range m.out {
				if !e.optional {
					queuedBefore++
				}
			}
			if frameAPI {
				exp = m.readFrame()
			} else {
				exp = m.readMessage()
			}
			conv := func(f websocket.Frame) *rfc6455.Frame {
				if f == nil {
					return nil
				}
				return &rfc6455.Frame{Fin: f.IsFIN(), Opcode: byte(f.Opcode()), Payload: append([]byte(nil), f.Payload()...)}
			}
			// A blocking read that goes back to the transport for more bytes waits for the peer; it must not do so while it
			// holds a reply it has not sent (a peer that waits for its Pong before it sends the rest would wait for ever).
			heldAtWait := 0
			ms.OnSyncRead = func() {
				if q := s.Pending(); q > heldAtWait {
					heldAtWait = q
				}
			}
			// the asynchronous reads likewise: by the time one of them arms the transport, the flush that precedes every
			// read has completed and nothing it queued is left unsent
			ms.OnAsyncRead = ms.OnSyncRead
			defer func() { ms.OnSyncRead, ms.OnAsyncRead = nil, nil }()
			switch api {
			case "NextFrame":
				f, err := s.NextFrame()
				gotErr, gotFrame = err, conv(f)
			case "AsyncNextFrame":
				done := 0
				s.AsyncNextFrame(func(err error, f websocket.Frame) { done++; gotErr, gotFrame = err, conv(f) })
				deliverUntil(&done, api)
			case "NextMessage":
				mt, n, err := s.NextMessage(buf)
				gotErr = err
				if err == nil {
					gotMsg = &wsMessage{Binary: mt == websocket.TypeBinary, Payload: append([]byte(nil), buf[:n]...)}
				}
			case "AsyncNextMessage":
				done := 0
				s.AsyncNextMessage(buf, func(err error, n int, mt websocket.MessageType) {
					done++
					gotErr = err
					if err == nil {
						gotMsg = &wsMessage{Binary: mt == websocket.TypeBinary, Payload: append([]byte(nil), buf[:n]...)}
					}
				})
				deliverUntil(&done, api)
			}
			trace = append(trace, fmt.Sprintf("%s=%v", api, gotErr))
			if heldAtWait > 0 && pendingCloseDone == nil {
				t.Fatalf("%s went (back) to the transport for more bytes while %d frame(s) it had queued (pongs / close reply) were still unsent: the answer to a Ping must not depend on the peer sending more first; trace=%v", api, heldAtWait, trace)
			}
			if !exp.terminal && pendingCloseDone == nil {
				ms.DeliverAll(1000)
				if fs, _ := rfc6455.ParseAll(ms.Out); len(fs) < queuedBefore {
					t.Fatalf("%s returned and only %d frames are on the wire, although %d replies (pongs / close) had been queued by earlier reads: a read flushes the pending control frames first; trace=%v", api, len(fs), queuedBefore, trace)
				}
			}
			switch {
			case exp.terminal:
				if gotErr == nil {
					t.Fatalf("%s: transport failed but the read reported success; trace=%v", api, trace)
				}
				stopped = true
				return
			case exp.eof:
				if gotErr != io.EOF {
					t.Fatalf("%s: want end-of-stream (io.EOF), got %v (model state %v); trace=%v", api, gotErr, m.state, trace)
				}
				if frameAPI && exp.frame != nil {
					if gotFrame == nil || gotFrame.Opcode != rfc6455.OpClose || len(gotFrame.Payload) < 2 || gotFrame.Payload[0] != 0x03 || gotFrame.Payload[1] != 0xee {
						t.Fatalf("%s: unexpected end of the transport must surface a Close(1006) frame, got %v; trace=%v", api, gotFrame, trace)
					}
				}
			case exp.err:
				if gotErr == nil {
					t.Fatalf("%s: framing violation was not reported (frame %v delivered); trace=%v", api, gotFrame, trace)
				}
			default:
				if gotErr != nil && !exp.anyErr {
					t.Fatalf("%s: unexpected error %v; trace=%v", api, gotErr, trace)
				}
				if gotErr == nil && frameAPI {
					if gotFrame == nil || gotFrame.Opcode != exp.frame.Opcode || gotFrame.Fin != exp.frame.Fin || !bytes.Equal(gotFrame.Payload, exp.frame.Payload) {
						t.Fatalf("%s delivered %v, model expects %v; trace=%v", api, gotFrame, exp.frame, trace)
					}
				}
				if gotErr == nil && !frameAPI {
					if exp.msg == nil || gotMsg == nil || gotMsg.Binary != exp.msg.Binary || !bytes.Equal(gotMsg.Payload, exp.msg.Payload) {
						t.Fatalf("%s delivered %+v, model expects %+v; trace=%v", api, gotMsg, exp.msg, trace)
					}
				}
			}
			if !frameAPI {
				if i, ok := eventsEqual(ctlGot, exp.ctl); !ok {
					t.Fatalf("%s: control callback invocations differ at #%d: got %v want %v; trace=%v", api, i, ctlGot, exp.ctl, trace)
				}
			}
			// ping accounting for the non-triviality rule
			pingsSinceFlush = 0
			for _, o := range m.out {
				_ = o
			}
			noteEvent()
		}
		write := func(t *rapid.T) {
			if stopped {
				return
			}
			api := rapid.SampledFrom([]string{"Write", "AsyncWrite", "WriteFrame", "AsyncWriteFrame"}).Draw(t, "wapi")
			p := smallPayload("wlen", 300)
			op := byte(rapid.SampledFrom([]int{rfc6455.OpText, rfc6455.OpBinary}).Draw(t, "wop"))
			var werr error
			mk := func() *websocket.Frame {
				f := s.AcquireFrame()
				f.SetFIN().SetOpcode(websocket.Opcode(op)).SetPayload(p)
				return f
			}
			switch api {
			case "Write":
				werr = s.Write(p, websocket.MessageType(op))
			case "AsyncWrite":
				done := 0
				s.AsyncWrite(p, websocket.MessageType(op), func(err error) { done++; werr = err })
				deliverUntil(&done, api)
			case "WriteFrame":
				werr = s.WriteFrame(mk())
			case "AsyncWriteFrame":
				done := 0
				s.AsyncWriteFrame(mk(), func(err error) { done++; werr = err })
				deliverUntil(&done, api)
			}
			trace = append(trace, fmt.Sprintf("%s(%d)=%v", api, len(p), werr))
			if m.state == epOpen {
				if werr != nil {
					t.Fatalf("%s while open failed: %v; trace=%v", api, werr, trace)
				}
				m.out = append(m.out, expOut{op: op, payload: p, what: "application frame"})
			} else if werr == nil {
				t.Fatalf("%s accepted in state %v (writes must be refused outside open); trace=%v", api, m.state, trace)
			}
			noteEvent()
		}
		flush := func(t *rapid.T) {
			if stopped {
				return
			}
			settleClose()
			var ferr error
			if rapid.Bool().Draw(t, "asyncFlush") {
				done := 0
				s.AsyncFlush(func(err error) { done++; ferr = err })
				deliverUntil(&done, "AsyncFlush")
			} else {
				ferr = s.Flush()
			}
			trace = append(trace, fmt.Sprintf("flush=%v", ferr))
			if ferr != nil {
				t.Fatalf("flush failed: %v; trace=%v", ferr, trace)
			}
			if p := matchWire(ms.Out, m.out); p != "" {
				t.Fatalf("after flush: %s; trace=%v", p, trace)
			}
		}
		closeIt := func(t *rapid.T) {
			if stopped {
				return
			}
			settleClose()
			code := rapid.SampledFrom([]websocket.CloseCode{websocket.CloseNormal, websocket.CloseGoingAway, 3001}).Draw(t, "ccode")
			reason := rapid.SampledFrom([]string{"", "done"}).Draw(t, "creason")
			var cerr error
			async := rapid.Bool().Draw(t, "asyncClose")
			inFlight := false
			// application writes submitted just before the Close, not yet completed: they were submitted first, so their
			// frames precede the Close frame on the wire ("nor any data frame after its Close frame")
			var burstDone []*int
			if async && m.state == epOpen && rapid.IntRange(0, 2).Draw(t, "burstBeforeClose") == 0 {
				for i, n := 0, rapid.IntRange(1, 3).Draw(t, "burst"); i < n; i++ {
					p := smallPayload("blen", 40)
					d := new(int)
					burstDone = append(burstDone, d)
					s.AsyncWrite(p, websocket.TypeBinary, func(err error) {
						*d++
						if err != nil {
							t.Fatalf("AsyncWrite submitted before the Close failed: %v; trace=%v", err, trace)
						}
					})
					m.out = append(m.out, expOut{op: rfc6455.OpBinary, payload: p, what: "application frame submitted before the close"})
					trace = append(trace, fmt.Sprintf("AsyncWrite(%d,not awaited)", len(p)))
				}
			}
			if async {
				done := 0
				s.AsyncClose(code, reason, func(err error) { done++; cerr = err })
				if done == 0 && pendingCloseDone == nil && ms.Parked() > 0 && rapid.Bool().Draw(t, "leaveInFlight") {
					// the Close frame is still being written: the closing handshake has started all the same, so
					// application writes are refused and State() says so from now on; the write is delivered later
					inFlight = true
					pendingCloseDone, pendingCloseErr = &done, &cerr
				} else {
					deliverUntil(&done, "AsyncClose")
				}
			} else {
				cerr = s.Close(code, reason)
			}
			if !inFlight {
				for _, d := range burstDone {
					deliverUntil(d, "AsyncWrite submitted before the close")
				}
			} else {
				pendingBurst = append(pendingBurst, burstDone...)
			}
			trace = append(trace, fmt.Sprintf("close(async=%v,inflight=%v,%d)=%v", async, inFlight, code, cerr))
			if m.state == epOpen {
				if cerr != nil {
					t.Fatalf("Close while open failed: %v; trace=%v", cerr, trace)
				}
				m.state = epClosingByUs
				m.queueClose(uint16(code), false, rfc6455.ClosePayload(uint16(code), reason), "local close")
			} else if cerr == nil {
				t.Fatalf("Close accepted in state %v; trace=%v", m.state, trace)
			}
			noteEvent()
		}
		t.Repeat(map[string]func(*rapid.T){
			"peer": peer, "peer2": peer, "peer3": peer,
			"read": read, "read2": read, "read3": read,
			"write": write,
			"flush": flush,
			"close": closeIt,
			"": func(t *rapid.T) {
				if stopped {
					return
				}
				checkState()
				// count pongs queued and not yet flushed for the non-triviality rule
				frames, _ := rfc6455.ParseAll(ms.Out)
				onWire, queuedPongs := 0, 0
				for _, f := range frames {
					if f.Opcode == rfc6455.OpPong {
						onWire++
					}
				}
				for _, o := range m.out {
					if o.op == rfc6455.OpPong && !o.optional {
						queuedPongs++
					}
				}
				_ = onWire
				apps := 0
				for _, o := range m.out {
					if o.op == rfc6455.OpText || o.op == rfc6455.OpBinary {
						apps++
					}
				}
				if queuedPongs >= 2 && apps >= 1 {
					twoPings = true
				}
				_ = pingsSinceFlush
			},
		})
		if !stopped {
			settleClose()
			if err := s.Flush(); err != nil {
				t.Fatalf("final flush: %v; trace=%v", err, trace)
			}
			if p := matchWire(ms.Out, m.out); p != "" {
				t.Fatalf("%s; trace=%v", p, trace)
			}
			checkState()
			// read to the end of the script: every remaining read must follow the model and the wire must stay legal
			for i := 0; i < 40 && m.readable(); i++ {
				if doubleCloseKnown && m.state == epClosingByUs {
					skip := false
					for _, f := range m.inbound {
						if f.kind == "violation" {
							skip = true
						}
					}
					if skip {
						excluded++
						break
					}
				}
				exp := m.readFrame()
				_, err := s.NextFrame()
				if exp.terminal {
					break
				}
				if (exp.eof || exp.err) && err == nil {
					t.Fatalf("drain: read succeeded where the model expects an error/EOF; trace=%v", trace)
				}
				if !exp.eof && !exp.err && !exp.anyErr && err != nil {
					t.Fatalf("drain: read failed with %v; trace=%v", err, trace)
				}
				if err := s.Flush(); err != nil {
					t.Fatalf("drain flush: %v", err)
				}
				if p := matchWire(ms.Out, m.out); p != "" {
					t.Fatalf("drain: %s; trace=%v", p, trace)
				}
				checkState()
			}
		}
		rec.ExcludedKnown(excluded)
		var cls []string
		nt := (transitionAt >= 0 && eventsAfter > 0) || twoPings
		if transitionAt >= 0 && eventsAfter > 0 {
			cls = append(cls, "events-after-close-transition")
		}
		if twoPings {
			cls = append(cls, ">=2-pongs-and-app-frames")
		}
		cls = append(cls, "final-"+m.state.String())
		rec.Case(strings.Join(trace, ","), nt, cls, map[string]any{"history": trace, "final_model_state": m.state.String(), "inline_pattern": pattern})
	})
}

// Probe of the recorded root cause: a framing violation read after our own
// Close (or a second violation) queues a second Close frame.
func TestC08_ProbeSecondClose(t *testing.T) {
	ms := memstream.New(nil)
	s, err := newAttached(4096, ms)
	if err != nil {
		t.Fatal(err)
	}
	if err := s.Close(websocket.CloseNormal, ""); err != nil {
		t.Fatal(err)
	}
	ms.Feed(rfc6455.Encode(rfc6455.Frame{Fin: true, Rsv1: true, Opcode: rfc6455.OpText, Payload: []byte("x"), LenBytes: -1}))
	_, rerr := s.NextFrame()
	_ = s.Flush()
	frames, _ := rfc6455.ParseAll(ms.Out)
	closes := 0
	for _, f := range frames {
		if f.Opcode == rfc6455.OpClose {
			closes++
		}
	}
	if rerr == nil {
		t.Fatalf("violation after our Close not reported")
	}
	known.Probe(t, "C08", "second-close-after-violation", closes > 1, fmt.Sprintf("Close() then a frame with RSV1 set: %d Close frames on the wire (Close(1000) then Close(1002))", closes))
}

// TestC08_CloseReplyCodes sweeps the status code (and payload form) of a Close that the peer sends to an open stream:
// the reply echoes a code that may appear on the wire, is 1000 for an empty payload and 1002 for everything else.
func TestC08_CloseReplyCodes(t *testing.T) {
	rec := evid.For("C08")
	special := []int{0, 1, 999, 1000, 1001, 1002, 1003, 1004, 1005, 1006, 1007, 1008, 1009, 1010, 1011, 1012, 1013, 1015, 1016, 1100, 2000, 2999, 3000, 3001, 4000, 4999, 5000, 5001, 32768, 65535}
	onWire := func(c int) bool {
		switch {
		case c >= 1000 && c <= 1003, c >= 1007 && c <= 1013, c >= 3000 && c <= 4999:
			return true
		}
		return false
	}
	vt.Check(t, 1500, func(t *rapid.T) {
		form := rapid.SampledFrom([]string{"code", "code", "code", "code+reason", "code+reason", "code+bad-utf8", "empty", "one-byte"}).Draw(t, "form")
		code := rapid.OneOf(rapid.SampledFrom(special), rapid.SampledFrom(special), rapid.IntRange(0, 5100), rapid.IntRange(0, 65535)).Draw(t, "code")
		if code == 1014 {
			code = 1013 // registered after RFC 6455; the property does not say which way it goes
		}
		reason := ""
		var payload []byte
		wantCode, wantEcho := 1002, false
		switch form {
		case "empty":
			wantCode = 1000
		case "one-byte":
			payload = []byte{byte(code)}
		case "code", "code+reason":
			if form == "code+reason" {
				reason = rapid.SampledFrom([]string{"x", "bye bye", "größe", strings.Repeat("r", 123)}).Draw(t, "reason")
			}
			payload = rfc6455.ClosePayload(uint16(code), reason)
			if onWire(code) {
				wantCode, wantEcho = code, true
			}
		case "code+bad-utf8":
			payload = append(rfc6455.ClosePayload(uint16(code), ""), 0xff, 0xfe, 0xc0)
		}
		ms := memstream.New(nil)
		s, err := newAttached(4096, ms)
		if err != nil {
			t.Fatalf("attach: %v", err)
		}
		pre := rapid.IntRange(0, 2).Draw(t, "pre")
		for i := 0; i < pre; i++ { // some ordinary traffic first
			ms.Feed(rfc6455.Encode(rfc6455.Frame{Fin: true, Opcode: rfc6455.OpBinary, Payload: []byte{byte(i)}, LenBytes: -1}))
			if _, err := s.NextFrame(); err != nil {
				t.Fatalf("reading a data frame: %v", err)
			}
		}
		ms.Feed(rfc6455.Encode(rfc6455.Frame{Fin: true, Opcode: rfc6455.OpClose, Payload: payload, LenBytes: -1}))
		api := rapid.SampledFrom(readAPIs).Draw(t, "api")
		buf := make([]byte, 4096)
		switch api {
		case "NextFrame":
			_, _ = s.NextFrame()
		case "AsyncNextFrame":
			s.AsyncNextFrame(func(error, websocket.Frame) {})
		case "NextMessage":
			_, _, _ = s.NextMessage(buf)
		default:
			s.AsyncNextMessage(buf, func(error, int, websocket.MessageType) {})
		}
		ms.DeliverAll(1000)
		_ = s.Flush()
		ms.DeliverAll(1000)
		desc := fmt.Sprintf("peer Close form=%s code=%d reason=%dB via %s", form, code, len(reason), api)
		frames, rest := rfc6455.ParseAll(ms.Out)
		if len(rest) != 0 || len(frames) != 1 || frames[0].Opcode != rfc6455.OpClose {
			t.Fatalf("%s: the client wrote %d frames (+%d stray bytes) %v, want exactly one Close", desc, len(frames), len(rest), frames)
		}
		got := frames[0].Payload
		if len(got) < 2 {
			t.Fatalf("%s: the Close reply carries a %d-byte payload, want status %d", desc, len(got), wantCode)
		}
		if gc := int(got[0])<<8 | int(got[1]); gc != wantCode {
			t.Fatalf("%s: the client answered Close(%d), want Close(%d)", desc, gc, wantCode)
		}
		_ = wantEcho
		if st := s.State(); st == websocket.StateActive {
			t.Fatalf("%s: State() is still active after the peer's Close", desc)
		}
		if err := s.Write([]byte("late"), websocket.TypeText); err == nil {
			t.Fatalf("%s: Write accepted after the peer's Close", desc)
		}
		cls := []string{"close-reply-" + form}
		reserved := code == 1004 || code == 1005 || code == 1006 || code == 1015
		if reserved {
			cls = append(cls, "reserved-status-code-on-the-wire")
		}
		rec.Case(fmt.Sprintf("closereply|%s|%d|%d|%s|%d", form, code, len(reason), api, pre), wantCode == 1002 || reserved, cls, map[string]any{"case": desc, "want": wantCode})
	})
}
