package ws

// C16, "no trailing bytes left over from earlier frames", across sessions of one Stream: a write of the previous session
// failed or was abandoned after its frame had been encoded; the wire of the session that follows the re-handshake must
// carry exactly the frames submitted in it.

import (
	"fmt"
	"syscall"
	"testing"
	"time"

	"github.com/talostrading/sonic"
	"github.com/talostrading/sonic/codec/websocket"
	"pgregory.net/rapid"
	"verif/internal/evid"
	"verif/internal/rfc6455"
	"verif/internal/sysx"
	"verif/internal/vt"
)

func TestC16_WireAfterAFailedWrite(t *testing.T) {
	rec := evid.For("C16")
	rec.SetRule("sessions on a real connection: 1..3 sessions on one Stream against a raw server; every session but the last ends with writes that cannot succeed (the peer reset the connection before a blocking Write/WriteFrame/Close, or 1..3 AsyncWrite were started and the connection dropped with CloseNextLayer before or after one poll); in the last session 1..5 messages/frames/pings are written with the blocking and asynchronous APIs and the bytes the server received must parse into exactly those frames, masked, in order, with nothing before, between or after them; non-trivial = at least one earlier session ended with a failed or abandoned write")
	vt.Check(t, 80, func(rt *rapid.T) {
		ln, err := sysx.ListenTCP()
		if err != nil {
			rt.Fatalf("INFRA: listen: %v", err)
		}
		defer ln.Close()
		ioc, err := sonic.NewIO()
		if err != nil {
			rt.Fatalf("INFRA: NewIO: %v", err)
		}
		defer ioc.Close()
		s, err := websocket.NewWebsocketStream(ioc, nil, websocket.RoleClient)
		if err != nil {
			rt.Fatal(err)
		}
		defer s.CloseNextLayer()
		var trace []string
		connect := func() int {
			ch := make(chan int, 1)
			go rawUpgrade(ln, ch)
			var herr error
			if rapid.Bool().Draw(rt, "asyncHandshake") {
				done := false
				s.AsyncHandshake("ws://"+ln.Addr()+"/", func(err error) { done, herr = true, err })
				for deadline := time.Now().Add(5 * time.Second); !done && time.Now().Before(deadline); {
					_ = ioc.RunOneFor(2 * time.Millisecond)
				}
				if !done {
					rt.Fatalf("INFRA: AsyncHandshake never completed; trace=%v", trace)
				}
			} else {
				herr = s.Handshake("ws://" + ln.Addr() + "/")
			}
			if herr != nil {
				rt.Fatalf("INFRA: handshake: %v; trace=%v", herr, trace)
			}
			srv := <-ch
			if srv < 0 {
				rt.Fatalf("INFRA: server side of the handshake failed")
			}
			sysx.NoLinger(srv)
			return srv
		}
		sessions := rapid.IntRange(1, 3).Draw(rt, "sessions")
		for i := 0; i < sessions-1; i++ {
			srv := connect()
			how := rapid.SampledFrom([]string{"peer-reset+blocking", "abandoned-async"}).Draw(rt, "ending")
			switch how {
			case "peer-reset+blocking":
				_ = syscall.Close(srv) // RST (no linger)
				sysx.WaitReadable(s.RawFd(), 500)
				time.Sleep(time.Millisecond)
				failed := 0
				for k, n := 0, rapid.IntRange(1, 3).Draw(rt, "failing"); k < n; k++ {
					var err error
					switch rapid.IntRange(0, 2).Draw(rt, "api") {
					case 0:
						err = s.Write([]byte(fmt.Sprintf("lost-%d-%d", i, k)), websocket.TypeText)
					case 1:
						f := s.AcquireFrame()
						f.SetFIN().SetOpcode(websocket.OpcodeBinary)
						f.SetPayload([]byte{0xDE, 0xAD, byte(k)})
						err = s.WriteFrame(f)
					default:
						err = s.Close(websocket.CloseNormal, "bye")
					}
					if err != nil {
						failed++
					}
				}
				trace = append(trace, fmt.Sprintf("session %d: peer reset, %d blocking writes failed", i, failed))
			default:
				nw := rapid.IntRange(1, 3).Draw(rt, "abandoned")
				for k := 0; k < nw; k++ {
					s.AsyncWrite([]byte(fmt.Sprintf("abandoned-%d-%d", i, k)), websocket.TypeText, func(error) {})
				}
				polled := rapid.Bool().Draw(rt, "pollBeforeTeardown")
				if polled {
					_, _ = ioc.PollOne()
				}
				trace = append(trace, fmt.Sprintf("session %d: %d AsyncWrite abandoned (polled=%v)", i, nw, polled))
				_ = syscall.Close(srv)
			}
			_ = s.CloseNextLayer()
			for k := 0; k < 3; k++ {
				_, _ = ioc.PollOne()
			}
		}
		srv := connect()
		defer syscall.Close(srv)
		var want []outItem
		n := rapid.IntRange(1, 5).Draw(rt, "writes")
		for k := 0; k < n; k++ {
			ln := rapid.OneOf(rapid.IntRange(0, 40), rapid.SampledFrom([]int{125, 126, 300})).Draw(rt, "len")
			b := make([]byte, ln)
			for j := range b {
				b[j] = byte(k*31 + j*7 + 1)
			}
			api := rapid.SampledFrom([]string{"Write", "AsyncWrite", "WriteFrame", "ping", "twoFrames"}).Draw(rt, "api")
			var err error
			switch api {
			case "Write":
				err = s.Write(b, websocket.TypeBinary)
				want = append(want, outItem{op: rfc6455.OpBinary, fin: true, payload: b, what: fmt.Sprintf("Write #%d", k)})
			case "AsyncWrite":
				done := false
				s.AsyncWrite(b, websocket.TypeText, func(e error) { done, err = true, e })
				for deadline := time.Now().Add(5 * time.Second); !done && time.Now().Before(deadline); {
					_, _ = ioc.PollOne()
				}
				if !done {
					rt.Fatalf("AsyncWrite #%d of the last session never completed; trace=%v", k, trace)
				}
				want = append(want, outItem{op: rfc6455.OpText, fin: true, payload: b, what: fmt.Sprintf("AsyncWrite #%d", k)})
			case "WriteFrame":
				f := s.AcquireFrame()
				f.SetFIN().SetOpcode(websocket.OpcodeBinary)
				f.SetPayload(b)
				err = s.WriteFrame(f)
				want = append(want, outItem{op: rfc6455.OpBinary, fin: true, payload: b, what: fmt.Sprintf("WriteFrame #%d", k)})
			case "twoFrames":
				// two frames taken from the stream's pool before either is written: they are two objects
				f1, f2 := s.AcquireFrame(), s.AcquireFrame()
				if f1 == f2 {
					rt.Fatalf("two consecutive AcquireFrame calls returned the same frame object (%p) in the session after a failed write; trace=%v", f1, trace)
				}
				b2 := append([]byte("second-"), b...)
				f1.SetFIN().SetOpcode(websocket.OpcodeBinary)
				f1.SetPayload(b)
				f2.SetFIN().SetOpcode(websocket.OpcodeText)
				f2.SetPayload(b2)
				if err = s.WriteFrame(f1); err == nil {
					err = s.WriteFrame(f2)
				}
				want = append(want, outItem{op: rfc6455.OpBinary, fin: true, payload: b, what: fmt.Sprintf("first of two frames #%d", k)},
					outItem{op: rfc6455.OpText, fin: true, payload: b2, what: fmt.Sprintf("second of two frames #%d", k)})
			default:
				if len(b) > 125 {
					b = b[:125]
				}
				f := s.AcquireFrame()
				f.SetFIN().SetOpcode(websocket.OpcodePing)
				f.SetPayload(b)
				err = s.WriteFrame(f)
				want = append(want, outItem{op: rfc6455.OpPing, fin: true, payload: b, what: fmt.Sprintf("ping #%d", k)})
			}
			if err != nil {
				rt.Fatalf("%s #%d of the last session failed: %v; trace=%v", api, k, err, trace)
			}
			trace = append(trace, fmt.Sprintf("%s(%d)", api, len(b)))
		}
		total := 0
		for _, w := range want {
			total += 2 + 4 + len(w.payload)
			if len(w.payload) > 125 {
				total += 2
			}
		}
		var wire []byte
		for deadline := time.Now().Add(3 * time.Second); len(wire) < total && time.Now().Before(deadline); {
			if sysx.WaitReadable(srv, 20) {
				wire = append(wire, sysx.ReadSome(srv, 1<<20)...)
			}
		}
		if sysx.WaitReadable(srv, 10) {
			wire = append(wire, sysx.ReadSome(srv, 1<<20)...)
		}
		if p := checkWire(wire, want); p != "" {
			rt.Fatalf("the server of session %d received something else than the %d frames written in that session: %s; trace=%v", sessions-1, len(want), p, trace)
		}
		rec.Case(fmt.Sprintf("afterfail|%v", trace), sessions > 1, []string{"wire-after-a-failed-write"}, map[string]any{"trace": trace})
	})
}
