package ws

// C16 — every frame the client writes is well-formed and correctly masked.

import (
	"bytes"
	"errors"
	"fmt"
	"strings"
	"testing"

	"github.com/talostrading/sonic/codec/websocket"
	"pgregory.net/rapid"
	"verif/internal/evid"
	"verif/internal/memstream"
	"verif/internal/rfc6455"
	"verif/internal/vt"
)

type outItem struct {
	op      byte
	fin     bool
	payload []byte
	what    string
}

// checkWire parses everything the client wrote and compares it with the
// submitted items.
func checkWire(out []byte, want []outItem) string {
	frames, rest := rfc6455.ParseAll(out)
	// find the first frame that disagrees before complaining about leftovers,
	// it is the more useful message
	for i := 0; i < len(frames) && i < len(want); i++ {
		f, w := frames[i], want[i]
		if !f.Masked {
			return fmt.Sprintf("frame #%d (%s) is not masked: %v", i, w.what, f)
		}
		if f.Opcode != w.op || f.Fin != w.fin {
			return fmt.Sprintf("frame #%d (%s): got %v, want op=%d fin=%v", i, w.what, f, w.op, w.fin)
		}
		if f.Rsv1 || f.Rsv2 || f.Rsv3 {
			return fmt.Sprintf("frame #%d (%s) has reserved bits set: %v", i, w.what, f)
		}
		if !bytes.Equal(f.Payload, w.payload) {
			return fmt.Sprintf("frame #%d (%s): unmasked payload (%d bytes %x..) differs from the caller's bytes (%d bytes %x..)", i, w.what, len(f.Payload), head(f.Payload, 8), len(w.payload), head(w.payload, 8))
		}
		if f.LenBytes != rfc6455.ShortestLenBytes(uint64(len(w.payload))) {
			return fmt.Sprintf("frame #%d (%s): %d-byte extended length used for a %d-byte payload", i, w.what, f.LenBytes, len(w.payload))
		}
	}
	if len(frames) != len(want) || len(rest) != 0 {
		n := 0
		for _, f := range frames {
			n += f.WireLen
		}
		return fmt.Sprintf("wire holds %d frames (+%d unparsable trailing bytes %x..), %d items were submitted; wire bytes after the %d expected frames start at offset %d of %d",
			len(frames), len(rest), head(rest, 12), len(want), len(want), n, len(out))
	}
	return ""
}

func TestC16_OutgoingFramesWellFormed(t *testing.T) {
	rec := evid.For("C16")
	rec.SetRule("rapid histories of 1..12 submissions over a scripted transport (VerifAttach): Write/AsyncWrite (text/binary, sizes from {0,1,125,126,127,65535,65536,max-1,max,max+1} and k*{512,4096,8192}-(0..24), i.e. next to the capacities the write buffer grows through, max=70000), WriteFrame/AsyncWriteFrame with caller-built frames (AcquireFrame + opcode/FIN; with payload, with empty payload, without SetPayload), inbound pings (auto Pong, 0..125 bytes) and a final peer or local Close; async transport completions inline or parked; one write in flight at a time; oracle = the complete captured byte stream parses with an independent RFC 6455 parser into exactly the submitted frames in order (mask bit, unmasked payload == caller bytes, shortest length encoding, no trailing bytes), over-max => ErrMessageTooBig and nothing written; non-trivial = a frame built after a strictly longer one was released to the pool OR a frame without payload OR >=3 frames flushed by one call; TestC16_Bursts: 2..9 AsyncWrite/AsyncWriteFrame/AsyncClose submissions and inbound pings (auto Pong joins the queue when the read completes) issued without waiting for the previous completion, transport completions released one at a time by the harness, oracle = wire frames equal the submissions in submission order + every callback once with nil + no overlapping transport write, non-trivial there = >=3 frames queued while a transport write is in flight; distinct = hash of the history")
	rec.Assume("TestC16_OutgoingFramesWellFormed keeps one application write in flight at a time (TestC16_Bursts lifts that); the transport is all-or-error for AsyncWriteAll like the real adapter")
	vt.CheckSteps(t, 2000, 12, func(t *rapid.T) {
		max := 70000
		ms := memstream.New(nil)
		pattern := rapid.SliceOfN(rapid.Bool(), 1, 6).Draw(t, "inline")
		k := 0
		ms.Inline = func(bool) bool { k++; return pattern[k%len(pattern)] }
		s, err := newAttached(max, ms)
		if err != nil {
			t.Fatalf("attach: %v", err)
		}
		var want []outItem
		var trace []string
		prevLen := -1
		reuseAfterLonger, noPayload, flushed3 := false, false, false
		queued := 0 // frames queued by reads (pongs) not yet flushed
		closed := false

		deliverUntil := func(done *int, what string) {
			for d := 0; *done == 0; d++ {
				if !ms.Deliver() {
					t.Fatalf("%s: callback not invoked and nothing outstanding on the transport; trace=%v", what, trace)
				}
				if d > 10000 {
					t.Fatalf("%s: no completion; trace=%v", what, trace)
				}
			}
			if *done != 1 {
				t.Fatalf("%s: callback invoked %d times; trace=%v", what, *done, trace)
			}
		}
		submitted := func(n int) {
			if queued+1 >= 3 {
				flushed3 = true
			}
			queued = 0
			if prevLen > n {
				reuseAfterLonger = true
			}
			prevLen = n
		}
		verify := func() {
			if ms.Parked() != 0 {
				t.Fatalf("transport operation still parked after completion; trace=%v", trace)
			}
			if p := checkWire(ms.Out, want); p != "" {
				t.Fatalf("%s; trace=%v", p, trace)
			}
			if ms.OverlapWrites != 0 {
				t.Fatalf("client started a transport write while another was in flight; trace=%v", trace)
			}
		}
		acts := map[string]func(*rapid.T){
			"write": func(t *rapid.T) {
				if closed {
					t.Skip()
				}
				bin := rapid.Bool().Draw(t, "bin")
				// sizes next to the capacities a growing write buffer passes through (a frame that just fits / just does not)
				nearCap := rapid.Custom(func(t *rapid.T) int {
					unit := rapid.SampledFrom([]int{512, 4096, 4096, 8192}).Draw(t, "unit")
					v := unit*rapid.IntRange(1, 16).Draw(t, "mult") - rapid.IntRange(0, 24).Draw(t, "below")
					if v > max {
						v = max - rapid.IntRange(0, 24).Draw(t, "belowMax")
					}
					return v
				})
				n := rapid.OneOf(rapid.IntRange(0, 40), rapid.IntRange(0, 40), rapid.IntRange(0, 700), nearCap, nearCap,
					rapid.SampledFrom([]int{0, 1, 125, 126, 127, 65535, 65536, max - 1, max, max + 1, max + 1})).Draw(t, "len")
				b := make([]byte, n)
				fill := byte(rapid.IntRange(0, 255).Draw(t, "fill"))
				for i := range b {
					b[i] = fill + byte(i*17)
				}
				mt := websocket.TypeText
				op := byte(rfc6455.OpText)
				if bin {
					mt, op = websocket.TypeBinary, rfc6455.OpBinary
				}
				async := rapid.Bool().Draw(t, "async")
				before := len(ms.Out)
				var werr error
				if async {
					done := 0
					s.AsyncWrite(b, mt, func(err error) { done++; werr = err })
					deliverUntil(&done, "AsyncWrite")
				} else {
					werr = s.Write(b, mt)
				}
				trace = append(trace, fmt.Sprintf("write(async=%v,len=%d)=%v", async, n, werr))
				if n > max {
					if !errors.Is(werr, websocket.ErrMessageTooBig) {
						t.Fatalf("write of %d bytes (max %d) returned %v, want ErrMessageTooBig; trace=%v", n, max, werr, trace)
					}
					if len(ms.Out) != before {
						t.Fatalf("over-max write put %d bytes on the wire; trace=%v", len(ms.Out)-before, trace)
					}
					return
				}
				if werr != nil {
					t.Fatalf("write failed: %v; trace=%v", werr, trace)
				}
				want = append(want, outItem{op: op, fin: true, payload: b, what: fmt.Sprintf("write %d bytes", n)})
				submitted(n)
			},
			"writeFrame": func(t *rapid.T) {
				if closed {
					t.Skip()
				}
				f := s.AcquireFrame()
				viaNewFrame := rapid.IntRange(0, 3).Draw(t, "viaNewFrame") == 0
				if viaNewFrame {
					// the public constructor instead of the stream's pool (only for frames without payload: a payload set
					// before the stream reserves room for the masking key is the reason AcquireFrame is recommended)
					nf := websocket.NewFrame()
					f = &nf
				}
				op := rapid.SampledFrom([]byte{rfc6455.OpText, rfc6455.OpBinary, rfc6455.OpPing, rfc6455.OpPong, rfc6455.OpContinuation}).Draw(t, "op")
				fin := rapid.Bool().Draw(t, "fin")
				if rfc6455.IsControl(op) {
					fin = true
				}
				if fin {
					f.SetFIN()
				}
				if rapid.IntRange(0, 3).Draw(t, "opcodeTwice") == 0 {
					// the caller changes its mind about the opcode: the second choice replaces the first
					f.SetOpcode(websocket.Opcode(rapid.SampledFrom([]byte{rfc6455.OpText, rfc6455.OpBinary, rfc6455.OpClose, rfc6455.OpPing, rfc6455.OpPong, 0x0f}).Draw(t, "firstOp")))
				}
				if rapid.Bool().Draw(t, "namedSetter") {
					switch op {
					case rfc6455.OpText:
						f.SetText()
					case rfc6455.OpBinary:
						f.SetBinary()
					case rfc6455.OpPing:
						f.SetPing()
					case rfc6455.OpPong:
						f.SetPong()
					default:
						f.SetContinuation()
					}
				} else {
					f.SetOpcode(websocket.Opcode(op))
				}
				mode := rapid.SampledFrom([]string{"payload", "payload", "empty", "none"}).Draw(t, "payloadMode")
				if viaNewFrame {
					mode = "none" // SetPayload on such a frame (even an empty one) is the documented reason to use AcquireFrame
				}
				var b []byte
				switch mode {
				case "payload":
					n := rapid.OneOf(rapid.IntRange(1, 40), rapid.SampledFrom([]int{1, 125})).Draw(t, "len")
					if !rfc6455.IsControl(op) {
						n = rapid.OneOf(rapid.IntRange(1, 40), rapid.SampledFrom([]int{1, 125, 126, 300, 65535, 65536})).Draw(t, "dlen")
					}
					b = make([]byte, n)
					fill := byte(rapid.IntRange(0, 255).Draw(t, "fill"))
					for i := range b {
						b[i] = fill ^ byte(i*5)
					}
					if rapid.IntRange(0, 3).Draw(t, "setTwice") == 0 {
						// the caller changes its mind: a payload of another length class was set first
						first := rapid.SampledFrom([]int{0, 1, 125, 126, 127, 300, 65535, 65536}).Draw(t, "firstLen")
						if rfc6455.IsControl(op) && first > 125 {
							first = 125
						}
						f.SetPayload(make([]byte, first))
					}
					f.SetPayload(b)
				case "empty":
					f.SetPayload(nil)
					noPayload = true
				default:
					noPayload = true // caller never calls SetPayload
				}
				async := rapid.Bool().Draw(t, "async")
				var werr error
				if async {
					done := 0
					s.AsyncWriteFrame(f, func(err error) { done++; werr = err })
					deliverUntil(&done, "AsyncWriteFrame")
				} else {
					werr = s.WriteFrame(f)
				}
				trace = append(trace, fmt.Sprintf("writeFrame(async=%v,op=%d,fin=%v,%s,len=%d)=%v", async, op, fin, mode, len(b), werr))
				if werr != nil {
					t.Fatalf("WriteFrame failed: %v; trace=%v", werr, trace)
				}
				want = append(want, outItem{op: op, fin: fin, payload: b, what: fmt.Sprintf("caller frame op=%d %s", op, mode)})
				submitted(len(b))
			},
			"ping": func(t *rapid.T) {
				if closed {
					t.Skip()
				}
				n := rapid.OneOf(rapid.IntRange(0, 10), rapid.SampledFrom([]int{0, 125})).Draw(t, "len")
				p := make([]byte, n)
				fill := byte(rapid.IntRange(0, 255).Draw(t, "fill"))
				for i := range p {
					p[i] = fill + byte(i)
				}
				ms.Feed(rfc6455.Encode(rfc6455.Frame{Fin: true, Opcode: rfc6455.OpPing, Payload: p, LenBytes: -1}))
				async := rapid.Bool().Draw(t, "async")
				var rerr error
				var got []byte
				var gotOp byte
				if async {
					done := 0
					s.AsyncNextFrame(func(err error, f websocket.Frame) {
						done++
						rerr = err
						if err == nil {
							got, gotOp = append([]byte(nil), f.Payload()...), byte(f.Opcode())
						}
					})
					deliverUntil(&done, "AsyncNextFrame")
				} else {
					f, err := s.NextFrame()
					rerr = err
					if err == nil {
						got, gotOp = append([]byte(nil), f.Payload()...), byte(f.Opcode())
					}
				}
				trace = append(trace, fmt.Sprintf("ping(async=%v,len=%d)=%v", async, n, rerr))
				if rerr != nil || gotOp != rfc6455.OpPing || !bytes.Equal(got, p) {
					t.Fatalf("reading the ping: err=%v op=%d payload=%x; trace=%v", rerr, gotOp, got, trace)
				}
				// the read that found this ping first flushed whatever earlier reads had queued
				queued = 1
				want = append(want, outItem{op: rfc6455.OpPong, fin: true, payload: p, what: "auto pong"})
				if prevLen > n {
					reuseAfterLonger = true
				}
				prevLen = n
				// the pong is only queued; it reaches the wire with the next flush. Force one so the wire can be compared.
				if rapid.Bool().Draw(t, "flushNow") {
					if rapid.Bool().Draw(t, "asyncFlush") {
						done := 0
						s.AsyncFlush(func(err error) { done++; rerr = err })
						deliverUntil(&done, "AsyncFlush")
					} else {
						rerr = s.Flush()
					}
					if rerr != nil {
						t.Fatalf("Flush: %v; trace=%v", rerr, trace)
					}
					queued = 0
					trace = append(trace, "flush")
				}
			},
		}
		acts["write2"] = acts["write"]
		acts["writeFrame2"] = acts["writeFrame"]
		step := func(t *rapid.T) {
			if s.Pending() == 0 {
				verify()
			}
		}
		acts[""] = step
		t.Repeat(acts)
		// flush what reads queued
		if err := s.Flush(); err != nil {
			t.Fatalf("final Flush: %v; trace=%v", err, trace)
		}
		queued = 0
		verify()
		// closing: peer-initiated (auto reply echoing the code) or local
		if rapid.Bool().Draw(t, "peerClose") {
			code := rapid.SampledFrom([]uint16{1000, 1001, 3000, 4999}).Draw(t, "code")
			reason := rapid.SampledFrom([]string{"", "bye", strings.Repeat("r", 100)}).Draw(t, "reason")
			ms.Feed(rfc6455.Encode(rfc6455.Frame{Fin: true, Opcode: rfc6455.OpClose, Payload: rfc6455.ClosePayload(code, reason), LenBytes: -1}))
			if _, err := s.NextFrame(); err != nil {
				t.Fatalf("reading the peer close: %v; trace=%v", err, trace)
			}
			if err := s.Flush(); err != nil {
				t.Fatalf("flush of the close reply: %v", err)
			}
			want = append(want, outItem{op: rfc6455.OpClose, fin: true, payload: rfc6455.ClosePayload(code, reason), what: "auto close reply"})
			trace = append(trace, fmt.Sprintf("peerClose(%d,%d)", code, len(reason)))
		} else {
			reason := rapid.SampledFrom([]string{"", "done", strings.Repeat("x", 120)}).Draw(t, "reason")
			if err := s.Close(websocket.CloseNormal, reason); err != nil {
				t.Fatalf("Close: %v; trace=%v", err, trace)
			}
			want = append(want, outItem{op: rfc6455.OpClose, fin: true, payload: rfc6455.ClosePayload(1000, reason), what: "local close"})
			trace = append(trace, fmt.Sprintf("localClose(%d)", len(reason)))
		}
		verify()
		var cls []string
		if noPayload {
			cls = append(cls, "frame-without-payload")
		}
		if reuseAfterLonger {
			cls = append(cls, "built-after-longer-frame")
		}
		if flushed3 {
			cls = append(cls, ">=3-frames-in-one-flush")
		}
		rec.Case(strings.Join(trace, ","), noPayload || reuseAfterLonger || flushed3, cls, map[string]any{"ops": trace, "inline_pattern": pattern, "wire_bytes": len(ms.Out)})
	})
}

// TestC16_Bursts submits several asynchronous writes without waiting for the previous completion, over a transport
// whose completions the harness releases one at a time: frames must reach the wire in submission order, each written
// completely before the next begins, and every callback runs once.
func TestC16_Bursts(t *testing.T) {
	rec := evid.For("C16")
	vt.Check(t, 1500, func(t *rapid.T) {
		max := 70000
		ms := memstream.New(nil)
		pattern := rapid.SliceOfN(rapid.Bool(), 1, 6).Draw(t, "inline")
		k := 0
		ms.Inline = func(bool) bool { k++; return pattern[k%len(pattern)] }
		s, err := newAttached(max, ms)
		if err != nil {
			t.Fatalf("attach: %v", err)
		}
		var want []outItem
		var trace []string
		n := rapid.IntRange(2, 9).Draw(t, "burst")
		done := make([]int, 0, n+1)
		errs := make([]error, 0, n+1)
		maxQueued, closed := 0, false
		readDone, readArmed := 0, false
		cb := func() func(error) {
			i := len(done)
			done = append(done, 0)
			errs = append(errs, nil)
			return func(err error) { done[i]++; errs[i] = err }
		}
		for i := 0; i < n && !closed; i++ {
			kind := rapid.SampledFrom([]string{"write", "write", "write", "frame", "frame", "ping", "close"}).Draw(t, "kind")
			if kind == "close" && i < n-1 && rapid.IntRange(0, 3).Draw(t, "closeEarly") != 0 {
				kind = "write"
			}
			switch kind {
			case "write":
				ln := rapid.OneOf(rapid.IntRange(0, 40), rapid.SampledFrom([]int{0, 125, 126, 300, 65536})).Draw(t, "len")
				b := make([]byte, ln)
				for j := range b {
					b[j] = byte(i*31 + j*7)
				}
				s.AsyncWrite(b, websocket.TypeBinary, cb())
				want = append(want, outItem{op: rfc6455.OpBinary, fin: true, payload: b, what: fmt.Sprintf("burst write #%d (%d bytes)", i, ln)})
				trace = append(trace, fmt.Sprintf("AsyncWrite#%d(len=%d)", i, ln))
			case "frame":
				f := s.AcquireFrame()
				op := rapid.SampledFrom([]byte{rfc6455.OpText, rfc6455.OpPing, rfc6455.OpPong}).Draw(t, "op")
				f.SetFIN().SetOpcode(websocket.Opcode(op))
				ln := rapid.IntRange(0, 60).Draw(t, "flen")
				b := make([]byte, ln)
				for j := range b {
					b[j] = byte(i*13 + j*3)
				}
				f.SetPayload(b)
				s.AsyncWriteFrame(f, cb())
				want = append(want, outItem{op: op, fin: true, payload: b, what: fmt.Sprintf("burst frame #%d op=%d", i, op)})
				trace = append(trace, fmt.Sprintf("AsyncWriteFrame#%d(op=%d,len=%d)", i, op, ln))
			case "ping":
				// an inbound ping whose automatic Pong joins the queue when the read completes
				if readArmed && readDone == 0 {
					trace = append(trace, "ping(skipped: read in flight)")
					break
				}
				p := []byte{byte(i), 0xAA}
				ms.Feed(rfc6455.Encode(rfc6455.Frame{Fin: true, Opcode: rfc6455.OpPing, Payload: p, LenBytes: -1}))
				readArmed, readDone = true, 0
				s.AsyncNextFrame(func(err error, f websocket.Frame) {
					readDone++
					if err != nil {
						t.Fatalf("AsyncNextFrame: %v; trace=%v", err, trace)
					}
					if !closed { // pings are only answered while the stream is active
						want = append(want, outItem{op: rfc6455.OpPong, fin: true, payload: p, what: "auto pong"})
					}
					trace = append(trace, "cb:ping-read")
				})
				trace = append(trace, fmt.Sprintf("ping#%d+AsyncNextFrame", i))
			case "close":
				s.AsyncClose(websocket.CloseNormal, "bye", cb())
				want = append(want, outItem{op: rfc6455.OpClose, fin: true, payload: rfc6455.ClosePayload(1000, "bye"), what: "local close"})
				trace = append(trace, fmt.Sprintf("AsyncClose#%d", i))
				closed = true
			}
			if q := s.Pending(); q > maxQueued {
				maxQueued = q
			}
			for d := rapid.SampledFrom([]int{0, 0, 0, 1, 2}).Draw(t, "deliver"); d > 0; d-- {
				if ms.Deliver() {
					trace = append(trace, "deliver")
				}
			}
		}
		ms.DeliverAll(100000)
		if readArmed && readDone != 1 {
			t.Fatalf("AsyncNextFrame callback ran %d times; trace=%v", readDone, trace)
		}
		if !closed {
			if err := s.Flush(); err != nil { // a pong queued by the last read, if no write followed it
				t.Fatalf("final Flush: %v; trace=%v", err, trace)
			}
		} else {
			ms.DeliverAll(100000)
		}
		for i := range done {
			if done[i] != 1 || errs[i] != nil {
				t.Fatalf("write callback #%d ran %d times with %v; trace=%v", i, done[i], errs[i], trace)
			}
		}
		if ms.OverlapWrites != 0 {
			t.Fatalf("client started a transport write while another was in flight; trace=%v", trace)
		}
		if p := checkWire(ms.Out, want); p != "" {
			t.Fatalf("%s; trace=%v", p, trace)
		}
		cls := []string{"burst"}
		if maxQueued >= 3 {
			cls = append(cls, "queued>=3-behind-in-flight")
		}
		rec.Case("burst:"+strings.Join(trace, ","), maxQueued >= 3, cls, map[string]any{"ops": trace, "max_queued": maxQueued})
	})
}
