package ws

// C15 — protocol violations are reported, never delivered as data.

import (
	"bytes"
	"fmt"
	"testing"

	"github.com/talostrading/sonic/codec/websocket"
	"pgregory.net/rapid"
	"verif/internal/evid"
	"verif/internal/memstream"
	"verif/internal/rfc6455"
	"verif/internal/vt"
)

type mutation struct {
	kind    string
	framing bool // one of the framing-rule violations (judged on every API, Close 1002 + write refusal expected)
	msgOnly bool // fragmentation-rule / message-size violations (judged on the message APIs)
}

var marker = []byte{0xde, 0xad, 0xbe, 0xef, 0x15, 0x15}

func TestC15_ViolationsReported(t *testing.T) {
	rec := evid.For("C15")
	rec.SetRule("rapid: a conforming session from the C06 generator (1..4 messages, fragmentation, interleaved ping/pong) with exactly one mutation at a generated frame position: RSV1/2/3 set, reserved opcode 3-7/11-15, mask bit + key, control frame with FIN=0, control frame with 126..200 bytes, continuation with nothing to continue, text/binary inside a fragmented message, frame above max, message above max; generated segmentation (cuts biased into headers); all four read APIs, async completions inline or parked; oracle: deliveries before the mutated frame equal the reference, the read reaching it returns an error, its marked payload is never delivered without an error, no panic; framing violations additionally: exactly one Close(1002) on the wire after Flush, State()==ClosedByUs, Write/AsyncWrite/WriteFrame refused; non-trivial = mutation inside a fragmented message or after >=2 delivered messages, with a segment boundary inside the mutated frame; TestC15_ViolationAfterLocalClose: the same session generator with a framing violation (marked payload) at a message boundary and a local Close/AsyncClose issued after a generated number of deliveries (0 = before the first read): the conforming prefix is still delivered, the read reaching the violation reports an error on every API, the marked payload is never delivered; non-trivial there = violation not at the very start; distinct = hash of wire+cuts+mutation")
	vt.Check(t, 1500, func(t *rapid.T) {
		max := 1000
		sess := genSession(t, max, 4)
		frames := append([]rfc6455.Frame(nil), sess.Frames...)
		kinds := []mutation{
			{kind: "rsv1", framing: true}, {kind: "rsv2", framing: true}, {kind: "rsv3", framing: true},
			{kind: "reserved-opcode", framing: true}, {kind: "masked", framing: true},
			{kind: "control-fin0", framing: true}, {kind: "control-too-long", framing: true},
			{kind: "stray-continuation", msgOnly: true}, {kind: "data-inside-fragmented", msgOnly: true},
			{kind: "frame-over-max"}, {kind: "message-over-max", msgOnly: true},
		}
		mut := rapid.SampledFrom(kinds).Draw(t, "mutation")
		// positions
		dataIdx, ctlIdx, contIdx, boundaryIdx := []int{}, []int{}, []int{}, []int{}
		inMsg := false
		for i, f := range frames {
			if rfc6455.IsControl(f.Opcode) {
				ctlIdx = append(ctlIdx, i)
				continue
			}
			if !inMsg {
				boundaryIdx = append(boundaryIdx, i)
			}
			dataIdx = append(dataIdx, i)
			if f.Opcode == rfc6455.OpContinuation {
				contIdx = append(contIdx, i)
			}
			inMsg = !f.Fin
		}
		pick := func(xs []int, lbl string) int { return xs[rapid.IntRange(0, len(xs)-1).Draw(t, lbl)] }
		mark := func(n int) []byte {
			p := make([]byte, n)
			for i := range p {
				p[i] = marker[i%len(marker)]
			}
			return p
		}
		pos := -1
		switch mut.kind {
		case "rsv1", "rsv2", "rsv3", "masked":
			pos = rapid.IntRange(0, len(frames)-1).Draw(t, "pos")
			f := frames[pos]
			switch mut.kind {
			case "rsv1":
				f.Rsv1 = true
			case "rsv2":
				f.Rsv2 = true
			case "rsv3":
				f.Rsv3 = true
			default:
				f.Masked = true
				f.Key = [4]byte{0x11, 0x22, 0x33, 0x44}
			}
			frames[pos] = f
		case "reserved-opcode":
			pos = rapid.IntRange(0, len(frames)-1).Draw(t, "pos")
			f := frames[pos]
			f.Opcode = byte(rapid.SampledFrom([]int{3, 4, 5, 6, 7, 11, 12, 13, 14, 15}).Draw(t, "rop"))
			if f.Opcode >= 8 && len(f.Payload) > 125 {
				f.Payload = f.Payload[:125]
			}
			frames[pos] = f
		case "control-fin0", "control-too-long":
			// insert a bad control frame at a generated position
			pos = rapid.IntRange(0, len(frames)).Draw(t, "pos")
			f := rfc6455.Frame{Fin: true, Opcode: byte(rapid.SampledFrom([]int{rfc6455.OpPing, rfc6455.OpPong, rfc6455.OpClose}).Draw(t, "cop")), LenBytes: -1}
			if mut.kind == "control-fin0" {
				f.Fin = false
				f.Payload = mark(rapid.IntRange(0, 20).Draw(t, "clen"))
				if f.Opcode == rfc6455.OpClose {
					f.Payload = append(rfc6455.ClosePayload(1000, ""), f.Payload...)
				}
			} else {
				f.Payload = mark(rapid.IntRange(126, 200).Draw(t, "clen"))
				if f.Opcode == rfc6455.OpClose {
					copy(f.Payload, rfc6455.ClosePayload(1000, ""))
				}
			}
			frames = append(frames[:pos:pos], append([]rfc6455.Frame{f}, frames[pos:]...)...)
		case "stray-continuation":
			// at a message boundary (or at the very end)
			b := append(append([]int{}, boundaryIdx...), len(frames))
			pos = pick(b, "pos")
			f := rfc6455.Frame{Fin: rapid.Bool().Draw(t, "sfin"), Opcode: rfc6455.OpContinuation, Payload: mark(rapid.IntRange(0, 30).Draw(t, "slen")), LenBytes: -1}
			frames = append(frames[:pos:pos], append([]rfc6455.Frame{f}, frames[pos:]...)...)
		case "data-inside-fragmented":
			if len(contIdx) == 0 {
				// make one: split the first data frame in two
				i := dataIdx[0]
				f := frames[i]
				a, b := f, f
				a.Fin = false
				a.Payload = f.Payload[:len(f.Payload)/2]
				b.Opcode = rfc6455.OpContinuation
				b.Payload = f.Payload[len(f.Payload)/2:]
				frames = append(frames[:i:i], append([]rfc6455.Frame{a, b}, frames[i+1:]...)...)
				contIdx = []int{i + 1}
			}
			pos = pick(contIdx, "pos")
			f := frames[pos]
			f.Opcode = byte(rapid.SampledFrom([]int{rfc6455.OpText, rfc6455.OpBinary}).Draw(t, "dop"))
			frames[pos] = f
		case "frame-over-max":
			pos = pick(dataIdx, "pos")
			f := frames[pos]
			f.Payload = mark(max + rapid.IntRange(1, 300).Draw(t, "over"))
			frames[pos] = f
		case "message-over-max":
			// replace one whole message by fragments that are each within the limit but add up to more
			i := pick(boundaryIdx, "pos")
			j := i
			for !(frames[j].Fin && !rfc6455.IsControl(frames[j].Opcode)) {
				j++
			}
			op := frames[i].Opcode
			a := rfc6455.Frame{Fin: false, Opcode: op, Payload: mark(max - rapid.IntRange(0, 50).Draw(t, "a")), LenBytes: -1}
			b := rfc6455.Frame{Fin: true, Opcode: rfc6455.OpContinuation, Payload: mark(rapid.IntRange(51, 400).Draw(t, "b")), LenBytes: -1}
			frames = append(frames[:i:i], append([]rfc6455.Frame{a, b}, frames[j+1:]...)...)
			pos = i + 1 // the frame that takes the message over the limit
		}
		// wire
		var wire []byte
		var starts []int
		for _, f := range frames {
			starts = append(starts, len(wire))
			wire = append(wire, rfc6455.Encode(f)...)
		}
		chunks, cuts, _ := segment(t, wire, starts, "seg.")
		cutInMutated := false
		mEnd := len(wire)
		if pos+1 < len(starts) {
			mEnd = starts[pos+1]
		}
		if mEnd-starts[pos] > 1 && rapid.Bool().Draw(t, "cutMutated") {
			// force a segment boundary inside the mutated frame (usually inside its header)
			c := starts[pos] + rapid.IntRange(1, min(mEnd-starts[pos]-1, 12)).Draw(t, "mcut")
			set := map[int]bool{c: true}
			for _, x := range cuts {
				set[x] = true
			}
			chunks, cuts = nil, nil
			prev := 0
			for x := 1; x < len(wire); x++ {
				if set[x] {
					chunks = append(chunks, wire[prev:x])
					cuts = append(cuts, x)
					prev = x
				}
			}
			chunks = append(chunks, wire[prev:])
		}
		for _, c := range cuts {
			if c > starts[pos] && c < mEnd {
				cutInMutated = true
			}
		}
		pattern := rapid.SliceOfN(rapid.Bool(), 1, 6).Draw(t, "inline")

		// reference deliveries before the mutated frame
		var wantFrames, wantMsgs []wsEvent
		{
			var acc []byte
			var op byte
			started := false
			for i := 0; i < pos; i++ {
				f := frames[i]
				wantFrames = append(wantFrames, wsEvent{Kind: "frame", Op: f.Opcode, Fin: f.Fin, Payload: f.Payload})
				if rfc6455.IsControl(f.Opcode) {
					wantMsgs = append(wantMsgs, wsEvent{Kind: "ctl", Op: f.Opcode, Fin: true, Payload: f.Payload})
					continue
				}
				if !started {
					op, started, acc = f.Opcode, true, nil
				}
				acc = append(acc, f.Payload...)
				if f.Fin {
					wantMsgs = append(wantMsgs, wsEvent{Kind: "msg", Op: op, Fin: true, Payload: acc})
					started = false
				}
			}
		}
		msgsBefore := len(filterKind(wantMsgs, "msg"))
		insideFragmented := false
		{
			in := false
			for i := 0; i < pos; i++ {
				if !rfc6455.IsControl(frames[i].Opcode) {
					in = !frames[i].Fin
				}
			}
			insideFragmented = in
		}

		for _, api := range readAPIs {
			frameAPI := api == "NextFrame" || api == "AsyncNextFrame"
			if mut.msgOnly && frameAPI {
				continue
			}
			k := 0
			inline := func(bool) bool { k++; return pattern[k%len(pattern)] }
			// run until the first error
			got, ferr, problem, s, ms := readSessionOn(api, max, 4*max, chunks, inline)
			if problem != "" {
				t.Fatalf("%s mutation=%s@%d cuts=%v: %s", api, mut.kind, pos, cuts, problem)
			}
			want := wantMsgs
			if frameAPI {
				want = wantFrames
			}
			// Everything delivered without error must be a prefix-equal of the reference deliveries before the mutation.
			if len(got) > len(want) {
				extra := got[len(want)]
				t.Fatalf("%s mutation=%s@%d cuts=%v: delivered %s although the next thing on the wire violates the protocol (got %d deliveries, only %d precede the violation); err=%v",
					api, mut.kind, pos, cuts, extra, len(got), len(want), ferr)
			}
			if i, ok := eventsEqual(got, want[:len(got)]); !ok {
				t.Fatalf("%s mutation=%s@%d: delivery #%d before the violation differs: got %s want %s", api, mut.kind, pos, i, got[i], want[i])
			}
			if len(got) != len(want) && !(mut.kind == "message-over-max" || mut.kind == "frame-over-max") {
				t.Fatalf("%s mutation=%s@%d cuts=%v: only %d of the %d conforming deliveries before the violation arrived; err=%v", api, mut.kind, pos, cuts, len(got), len(want), ferr)
			}
			if ferr == nil {
				t.Fatalf("%s mutation=%s@%d: no error reported", api, mut.kind, pos)
			}
			for _, e := range got {
				if e.Kind != "ctl" && bytes.Contains(e.Payload, marker) {
					t.Fatalf("%s mutation=%s@%d: bytes of the violating frame were delivered as data", api, mut.kind, pos)
				}
			}
			if mut.framing {
				if err := s.Flush(); err != nil {
					t.Fatalf("Flush after the violation: %v", err)
				}
				out, rest := rfc6455.ParseAll(ms.Out)
				if len(rest) != 0 {
					t.Fatalf("%s mutation=%s: %d unparsable bytes on the wire", api, mut.kind, len(rest))
				}
				closes := 0
				for _, f := range out {
					if f.Opcode == rfc6455.OpClose {
						closes++
						if len(f.Payload) < 2 || f.Payload[0] != 0x03 || f.Payload[1] != 0xea {
							t.Fatalf("%s mutation=%s@%d: Close frame carries %x, want status 1002", api, mut.kind, pos, f.Payload)
						}
					}
				}
				if closes != 1 {
					t.Fatalf("%s mutation=%s@%d cuts=%v: %d Close frames on the wire after the violation, want exactly one with status 1002 (err was %v)", api, mut.kind, pos, cuts, closes, ferr)
				}
				if s.State() != websocket.StateClosedByUs {
					t.Fatalf("%s mutation=%s@%d: State()=%v after a framing violation, want StateClosedByUs", api, mut.kind, pos, s.State())
				}
				before := len(ms.Out)
				if err := s.Write([]byte("late"), websocket.TypeText); err == nil {
					t.Fatalf("%s mutation=%s: Write accepted after a framing violation", api, mut.kind)
				}
				var aerr error
				s.AsyncWrite([]byte("late"), websocket.TypeBinary, func(err error) { aerr = err })
				ms.DeliverAll(100)
				if aerr == nil {
					t.Fatalf("%s mutation=%s: AsyncWrite accepted after a framing violation", api, mut.kind)
				}
				f := s.AcquireFrame()
				f.SetFIN().SetText().SetPayload([]byte("late"))
				if err := s.WriteFrame(f); err == nil {
					t.Fatalf("%s mutation=%s: WriteFrame accepted after a framing violation", api, mut.kind)
				}
				if len(ms.Out) != before {
					t.Fatalf("%s mutation=%s: refused writes still put %d bytes on the wire", api, mut.kind, len(ms.Out)-before)
				}
			}
		}
		nt := (insideFragmented || msgsBefore >= 2) && cutInMutated
		cls := []string{"mutation:" + mut.kind}
		if insideFragmented {
			cls = append(cls, "inside-fragmented-message")
		}
		if msgsBefore >= 2 {
			cls = append(cls, "after>=2-messages")
		}
		if cutInMutated {
			cls = append(cls, "cut-in-mutated-frame")
		}
		rec.Case(fmt.Sprintf("%x|%v|%s@%d", wire, cuts, mut.kind, pos), nt, cls,
			map[string]any{"mutation": mut.kind, "position": pos, "frames": len(frames), "cuts": cuts, "wire_len": len(wire)})
	})
}

// TestC15_ViolationAfterLocalClose places the violating frame at the positions of a session that follow a locally
// started Close: the client keeps reading until the peer's Close arrives, and a frame that breaks the framing rules in
// that stretch is still reported by every read API and never delivered.
func TestC15_ViolationAfterLocalClose(t *testing.T) {
	rec := evid.For("C15")
	vt.Check(t, 600, func(t *rapid.T) {
		max := 1000
		sess := genSession(t, max, 3)
		frames := append([]rfc6455.Frame(nil), sess.Frames...)
		// the violating frame goes at a message boundary (or at the end), so that the conforming prefix is deliverable whole
		var bounds []int
		inMsg := false
		for i, f := range frames {
			if !inMsg {
				bounds = append(bounds, i)
			}
			if !rfc6455.IsControl(f.Opcode) {
				inMsg = !f.Fin
			}
		}
		bounds = append(bounds, len(frames))
		pos := bounds[rapid.IntRange(0, len(bounds)-1).Draw(t, "pos")]
		kind := rapid.SampledFrom([]string{"rsv1", "rsv2", "rsv3", "reserved-opcode", "masked", "control-fin0", "control-too-long"}).Draw(t, "mutation")
		payload := append(append([]byte{}, marker...), bytes.Repeat([]byte{0x15}, rapid.IntRange(0, 40).Draw(t, "plen"))...)
		bad := rfc6455.Frame{Fin: true, Opcode: rfc6455.OpText, Payload: payload, LenBytes: -1}
		switch kind {
		case "rsv1":
			bad.Rsv1 = true
		case "rsv2":
			bad.Rsv2 = true
		case "rsv3":
			bad.Rsv3 = true
		case "reserved-opcode":
			bad.Opcode = byte(rapid.SampledFrom([]int{3, 4, 5, 6, 7, 11, 12, 13, 14, 15}).Draw(t, "rop"))
		case "masked":
			bad.Masked, bad.Key = true, [4]byte{9, 8, 7, 6}
		case "control-fin0":
			bad.Opcode, bad.Fin = rfc6455.OpPing, false
		case "control-too-long":
			bad.Opcode = rfc6455.OpPing
			bad.Payload = append(append([]byte{}, marker...), bytes.Repeat([]byte{0x15}, rapid.IntRange(120, 200).Draw(t, "clen"))...)
		}
		frames = append(append(append([]rfc6455.Frame{}, frames[:pos]...), bad), rfc6455.Frame{Fin: true, Opcode: rfc6455.OpClose, Payload: rfc6455.ClosePayload(1000, ""), LenBytes: -1})
		var wire []byte
		var starts []int
		for _, f := range frames {
			starts = append(starts, len(wire))
			wire = append(wire, rfc6455.Encode(f)...)
		}
		chunks, cuts, _ := segment(t, wire, starts, "seg.")
		pattern := rapid.SliceOfN(rapid.Bool(), 1, 6).Draw(t, "inline")
		asyncClose := rapid.Bool().Draw(t, "asyncClose")
		// reference deliveries of the conforming prefix
		var wantFrames, wantMsgs []wsEvent
		{
			var acc []byte
			var op byte
			started := false
			for i := 0; i < pos; i++ {
				f := frames[i]
				wantFrames = append(wantFrames, wsEvent{Kind: "frame", Op: f.Opcode, Fin: f.Fin, Payload: f.Payload})
				if rfc6455.IsControl(f.Opcode) {
					wantMsgs = append(wantMsgs, wsEvent{Kind: "ctl", Op: f.Opcode, Fin: true, Payload: f.Payload})
					continue
				}
				if !started {
					op, started, acc = f.Opcode, true, nil
				}
				acc = append(acc, f.Payload...)
				if f.Fin {
					wantMsgs = append(wantMsgs, wsEvent{Kind: "msg", Op: op, Fin: true, Payload: acc})
					started = false
				}
			}
		}
		for _, api := range readAPIs {
			want := wantMsgs
			if api == "NextFrame" || api == "AsyncNextFrame" {
				want = wantFrames
			}
			closeAfter := rapid.IntRange(0, len(want)).Draw(t, "closeAfter."+api)
			closedAt := -1
			k := 0
			inline := func(bool) bool { k++; return pattern[k%len(pattern)] }
			hook := func(s *websocket.Stream, msRef *memstream.Stream, delivered int) {
				if closedAt >= 0 || delivered < closeAfter {
					return
				}
				closedAt = delivered
				if asyncClose {
					done := 0
					s.AsyncClose(websocket.CloseNormal, "done", func(error) { done++ })
					for d := 0; done == 0 && d < 1000 && msRef.Deliver(); d++ {
					}
					if done != 1 {
						t.Fatalf("AsyncClose callback ran %d times", done)
					}
				} else {
					_ = s.Close(websocket.CloseNormal, "done")
				}
			}
			got, ferr, problem, s, _ := readSessionHook(api, max, 4*max, chunks, inline, hook)
			desc := fmt.Sprintf("%s mutation=%s@%d closeAfter=%d(asyncClose=%v) cuts=%v", api, kind, pos, closeAfter, asyncClose, cuts)
			if problem != "" {
				t.Fatalf("%s: %s", desc, problem)
			}
			for _, e := range got {
				if e.Kind != "ctl" && bytes.Contains(e.Payload, marker) {
					t.Fatalf("%s: bytes of the violating frame were delivered as data (%s) while the client was closing", desc, e)
				}
			}
			if len(got) > len(want) {
				t.Fatalf("%s: delivered %s although the next thing on the wire violates the protocol (the client had started closing after delivery #%d); err=%v", desc, got[len(want)], closedAt, ferr)
			}
			if i, ok := eventsEqual(got, want[:len(got)]); !ok {
				t.Fatalf("%s: delivery #%d differs: got %s want %s", desc, i, got[i], want[i])
			}
			if ferr == nil {
				t.Fatalf("%s: no error reported", desc)
			}
			if len(got) != len(want) {
				t.Fatalf("%s: only %d of the %d conforming deliveries before the violation arrived (reads continue after a local Close until the peer's Close); err=%v", desc, len(got), len(want), ferr)
			}
			if s.State() == websocket.StateActive {
				t.Fatalf("%s: State() is active after a local Close and a violation", desc)
			}
			if err := s.Write([]byte("late"), websocket.TypeText); err == nil {
				t.Fatalf("%s: Write accepted", desc)
			}
		}
		rec.Case(fmt.Sprintf("afterclose|%x|%v|%s@%d", wire, cuts, kind, pos), pos > 0, []string{"violation-after-local-close", "mutation:" + kind}, map[string]any{"mutation": kind, "position": pos, "frames": len(frames)})
	})
}
