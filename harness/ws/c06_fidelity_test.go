package ws

// C06 — message delivery fidelity under fragmentation and segmentation.

import (
	"bytes"
	"fmt"
	"testing"

	"github.com/talostrading/sonic/codec/websocket"
	"pgregory.net/rapid"
	"verif/internal/evid"
	"verif/internal/memstream"
	"verif/internal/rfc6455"
	"verif/internal/vt"
)

type wsEvent struct {
	Kind    string // "msg" "ctl" "frame"
	Op      byte
	Fin     bool
	Payload []byte
}

func (e wsEvent) String() string {
	return fmt.Sprintf("%s(op=%d fin=%v len=%d %x)", e.Kind, e.Op, e.Fin, len(e.Payload), head(e.Payload, 6))
}

func eventsEqual(a, b []wsEvent) (int, bool) {
	for i := 0; i < len(a) && i < len(b); i++ {
		if a[i].Kind != b[i].Kind || a[i].Op != b[i].Op || a[i].Fin != b[i].Fin || !bytes.Equal(a[i].Payload, b[i].Payload) {
			return i, false
		}
	}
	if len(a) != len(b) {
		if len(a) < len(b) {
			return len(a), false
		}
		return len(b), false
	}
	return -1, true
}

func expectedMessageEvents(s session) []wsEvent {
	var ev []wsEvent
	mi := 0
	for _, f := range s.Frames {
		if rfc6455.IsControl(f.Opcode) {
			ev = append(ev, wsEvent{Kind: "ctl", Op: f.Opcode, Fin: true, Payload: f.Payload})
		} else if f.Fin {
			m := s.Messages[mi]
			mi++
			ev = append(ev, wsEvent{Kind: "msg", Op: m.opcode(), Fin: true, Payload: m.Payload})
		}
	}
	return ev
}

func expectedFrameEvents(s session) []wsEvent {
	var ev []wsEvent
	for _, f := range s.Frames {
		ev = append(ev, wsEvent{Kind: "frame", Op: f.Opcode, Fin: f.Fin, Payload: f.Payload})
	}
	return ev
}

const maxDeliver = 100000

// readSession drives one of the four read APIs over the scripted transport
// until it reports an error, returning what was delivered.
func readSession(api string, max int, chunks [][]byte, inline func(bool) bool) (events []wsEvent, finalErr error, problem string) {
	events, finalErr, problem, _, _ = readSessionOn(api, max, max+16, chunks, inline)
	return
}

// readSessionOn is readSession that also hands back the stream and transport
// so that the caller can inspect what happened after the first error.
func readSessionOn(api string, max, bufLen int, chunks [][]byte, inline func(bool) bool) (events []wsEvent, finalErr error, problem string, s *websocket.Stream, ms *memstream.Stream) {
	return readSessionHook(api, max, bufLen, chunks, inline, nil)
}

// readSessionHook additionally calls hook before every read with the number of deliveries so far (data and control),
// so that the caller can act on the stream at a chosen position of the session.
func readSessionHook(api string, max, bufLen int, chunks [][]byte, inline func(bool) bool, hook func(s *websocket.Stream, ms *memstream.Stream, delivered int)) (events []wsEvent, finalErr error, problem string, s *websocket.Stream, ms *memstream.Stream) {
	defer func() {
		if r := recover(); r != nil {
			problem = fmt.Sprintf("%s panicked: %v", api, r)
		}
	}()
	ms = memstream.New(copyChunks(chunks))
	ms.Inline = inline
	s, err := newAttached(max, ms)
	if err != nil {
		return nil, nil, "attach: " + err.Error(), nil, nil
	}
	s.SetControlCallback(func(mt websocket.MessageType, payload []byte) {
		events = append(events, wsEvent{Kind: "ctl", Op: byte(mt), Fin: true, Payload: append([]byte(nil), payload...)})
	})
	buf := make([]byte, bufLen)
	for step := 0; step < 10000; step++ {
		if hook != nil {
			hook(s, ms, len(events))
		}
		switch api {
		case "NextMessage":
			mt, n, err := s.NextMessage(buf)
			if err != nil {
				return events, err, "", s, ms
			}
			events = append(events, wsEvent{Kind: "msg", Op: byte(mt), Fin: true, Payload: append([]byte(nil), buf[:n]...)})
		case "AsyncNextMessage":
			calls := 0
			var rerr error
			s.AsyncNextMessage(buf, func(err error, n int, mt websocket.MessageType) {
				calls++
				rerr = err
				if err == nil {
					events = append(events, wsEvent{Kind: "msg", Op: byte(mt), Fin: true, Payload: append([]byte(nil), buf[:n]...)})
				}
			})
			for d := 0; calls == 0; d++ {
				if !ms.Deliver() {
					return events, nil, "AsyncNextMessage: callback not invoked and no transport operation outstanding", s, ms
				}
				if d > maxDeliver {
					return events, nil, "AsyncNextMessage: no completion after many transport deliveries", s, ms
				}
			}
			if calls != 1 {
				return events, nil, fmt.Sprintf("AsyncNextMessage callback invoked %d times", calls), s, ms
			}
			if rerr != nil {
				return events, rerr, "", s, ms
			}
		case "NextFrame":
			f, err := s.NextFrame()
			if err != nil {
				return events, err, "", s, ms
			}
			events = append(events, wsEvent{Kind: "frame", Op: byte(f.Opcode()), Fin: f.IsFIN(), Payload: append([]byte(nil), f.Payload()...)})
			if f.PayloadLength() != len(f.Payload()) {
				return events, nil, fmt.Sprintf("NextFrame: PayloadLength()=%d but Payload() has %d bytes", f.PayloadLength(), len(f.Payload())), s, ms
			}
		case "AsyncNextFrame":
			calls := 0
			var rerr error
			s.AsyncNextFrame(func(err error, f websocket.Frame) {
				calls++
				rerr = err
				if err == nil {
					events = append(events, wsEvent{Kind: "frame", Op: byte(f.Opcode()), Fin: f.IsFIN(), Payload: append([]byte(nil), f.Payload()...)})
				}
			})
			for d := 0; calls == 0; d++ {
				if !ms.Deliver() {
					return events, nil, "AsyncNextFrame: callback not invoked and no transport operation outstanding", s, ms
				}
				if d > maxDeliver {
					return events, nil, "AsyncNextFrame: no completion after many transport deliveries", s, ms
				}
			}
			if calls != 1 {
				return events, nil, fmt.Sprintf("AsyncNextFrame callback invoked %d times", calls), s, ms
			}
			if rerr != nil {
				return events, rerr, "", s, ms
			}
		}
	}
	return events, nil, "session did not end", s, ms
}

var readAPIs = []string{"NextFrame", "AsyncNextFrame", "NextMessage", "AsyncNextMessage"}

func filterKind(ev []wsEvent, kind string) []wsEvent {
	var out []wsEvent
	for _, e := range ev {
		if e.Kind == kind {
			out = append(out, e)
		}
	}
	return out
}

func TestC06_MessageFidelity(t *testing.T) {
	rec := evid.For("C06")
	rec.SetRule("rapid: 1..4 messages (text/binary, sizes from {0,1,125,126,127,65535,65536,max-1,max} and random, max=70000 via SetMaxMessageSize; in a third of the cases ValidateUTF8(true) with ASCII text and arbitrary binary payloads), each fragmented at generated cut points (empty fragments included), ping/pong with 0..125 bytes inserted anywhere incl. between fragments, wire bytes segmented by a generated cut set biased into frame headers (sometimes byte-by-byte), delivered through a scripted transport attached with VerifAttach; all four read APIs (async completions inline or parked per generated choice) run on the same bytes and compared with the reference event list (messages, control callbacks, frames) and with each other, and a second segmentation compared with the first; non-trivial = (message with >=2 fragments AND control frame between fragments AND a segment boundary inside a frame header) OR a 16/64-bit length; TestC06_SessionBehindHandshake: a real opening handshake (blocking/async) against a raw server that sends 1..3 messages in the same bytes as its conforming response (last one optionally cut after 1..6 bytes) and 0..2 later, the byte stream cut at 1..3 generated positions or around the end of the response head (-6..+8, i.e. inside the final CRLFCRLF); every message must arrive, byte-identical and in order, the handshake must complete; non-trivial there = segmented; distinct = hash of wire+cuts")
	rec.Assume("caller buffer for NextMessage is at least the maximum message size; control callback performs no stream calls; one read outstanding at a time")
	vt.Check(t, 1500, func(t *rapid.T) {
		max := 70000
		// the optional UTF-8 validation of text frames must not disturb anything a conforming peer sends
		validate := rapid.IntRange(0, 2).Draw(t, "validateUTF8") == 0
		attachValidateUTF8, sessionASCIIText = validate, validate
		defer func() { attachValidateUTF8, sessionASCIIText = false, false }()
		sess := genSession(t, max, 4)
		chunks, cuts, inHeader := segment(t, sess.Wire, sess.Starts, "seg.")
		chunks2, cuts2, _ := segment(t, sess.Wire, sess.Starts, "seg2.")
		pattern := rapid.SliceOfN(rapid.Bool(), 1, 8).Draw(t, "inline")
		wantMsg := expectedMessageEvents(sess)
		wantFrames := expectedFrameEvents(sess)
		exactFit := 0
		if rapid.IntRange(0, 2).Draw(t, "exactFitBuffer") == 0 {
			for _, e := range wantMsg {
				if e.Kind != "ctl" && len(e.Payload) > exactFit {
					exactFit = len(e.Payload)
				}
			}
		}
		for _, api := range readAPIs {
			for vi, ch := range [][][]byte{chunks, chunks2} {
				k := 0
				inline := func(bool) bool { k++; return pattern[k%len(pattern)] }
				bufLen := max + 16
				if exactFit > 0 && (api == "NextMessage" || api == "AsyncNextMessage") {
					bufLen = exactFit // the reader's buffer is exactly as long as the longest message of the session
				}
				got, ferr, problem, _, _ := readSessionOn(api, max, bufLen, ch, inline)
				c := cuts
				if vi == 1 {
					c = cuts2
				}
				if problem != "" {
					t.Fatalf("%s cuts=%v: %s; delivered so far %v", api, c, problem, got)
				}
				want := wantMsg
				if api == "NextFrame" || api == "AsyncNextFrame" {
					want = wantFrames
					// the frame API does not invoke the control callback
					if len(filterKind(got, "ctl")) != 0 {
						t.Fatalf("%s invoked the control callback", api)
					}
				}
				// after the script ends the frame API surfaces a 1006 close frame together with EOF; only the error matters here
				if i, ok := eventsEqual(got, want); !ok {
					var g, w string
					if i < len(got) {
						g = got[i].String()
					}
					if i < len(want) {
						w = want[i].String()
					}
					t.Fatalf("%s cuts=%v: delivery #%d differs: got %s want %s (got %d events, want %d; final err %v)", api, c, i, g, w, len(got), len(want), ferr)
				}
				if ferr == nil {
					t.Fatalf("%s: no end-of-stream after the script ended", api)
				}
			}
		}
		nt := (sess.Fragmented && sess.ControlBetween && inHeader) || sess.Big
		var cls []string
		if sess.Fragmented && sess.ControlBetween && inHeader {
			cls = append(cls, "fragmented+control-between+cut-in-header")
		}
		if sess.Big {
			cls = append(cls, "16/64-bit-length")
		}
		if sess.Fragmented {
			cls = append(cls, "fragmented")
		}
		if inHeader {
			cls = append(cls, "cut-in-header")
		}
		var shape []string
		for _, f := range sess.Frames {
			shape = append(shape, fmt.Sprintf("op%d/fin=%v/%d", f.Opcode, f.Fin, len(f.Payload)))
		}
		rec.Case(fmt.Sprintf("%x|%v|%v", sess.Wire, cuts, cuts2), nt, cls, map[string]any{"frames": shape, "cuts": cuts, "cuts2": cuts2, "inline_pattern": pattern})
	})
}
