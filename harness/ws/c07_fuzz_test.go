package ws

import (
	"testing"
)

// FuzzC07FrameDecode: coverage-guided bytes with the same oracle as the rapid
// check (independent parser, whole vs split feeding).
func FuzzC07FrameDecode(f *testing.F) {
	seeds := [][]byte{
		{0x81, 0x05, 'h', 'e', 'l', 'l', 'o'},
		{0x81, 0x85, 1, 2, 3, 4, 'h' ^ 1, 'e' ^ 2, 'l' ^ 3, 'l' ^ 4, 'o' ^ 1},
		{0x81, 0x7e, 0x00, 0x7e},
		{0x82, 0x7f, 0, 0, 0, 0, 0, 1, 0, 0},
		{0x00, 0x7f, 0x80, 0, 0, 0, 0, 0, 0, 0},
		{0x30, 0xff, 0xff, 0x30, 0, 0, 0, 0, 0, 0, 1, 2, 3, 4},
		{0x88, 0x02, 0x03, 0xe8, 0x89, 0x00, 0x8a, 0x00},
		{0x01, 0x03, 'a', 'b', 'c', 0x80, 0x02, 'd', 'e'},
		{0x81, 0x7f, 0xff, 0xff, 0xff, 0xff, 0xff, 0xff, 0xff, 0xff},
		{0x81, 0xfe, 0xff, 0xff},
	}
	for _, s := range seeds {
		f.Add(s, uint16(0), uint16(0), uint8(0))
		f.Add(s, uint16(1), uint16(3), uint8(1))
	}
	f.Fuzz(func(t *testing.T, data []byte, c1, c2 uint16, m uint8) {
		max := []int{70000, 300, 125, 65536}[int(m)%4]
		if len(data) > 1<<17 {
			return
		}
		whole, p := decodeAgainstRef(max, [][]byte{data})
		if p != "" {
			t.Fatalf("whole: %s", p)
		}
		a, b := int(c1), int(c2)
		if len(data) > 0 {
			a %= len(data) + 1
			b %= len(data) + 1
		} else {
			a, b = 0, 0
		}
		if a > b {
			a, b = b, a
		}
		pieces := [][]byte{data[:a], data[a:b], data[b:]}
		split, p := decodeAgainstRef(max, pieces)
		if p != "" {
			t.Fatalf("split at %d,%d: %s", a, b, p)
		}
		if whole.frames != split.frames || whole.terminal != split.terminal {
			t.Fatalf("outcome depends on the split %d,%d: whole=%+v split=%+v", a, b, whole, split)
		}
	})
}
