package buffers

// C09 — ByteBuffer behaves as three adjacent FIFO regions.
//
// Generator: rapid state machine over the public API with integer arguments
// drawn from boundary classes (MinInt, -1, 0, 1, exactly-available,
// available+1, MaxInt-k, MaxInt) and random values. Oracle: three byte slices
// (saved, readable, pending) plus the list of live slots.

import (
	"bytes"
	"errors"
	"fmt"
	"io"
	"math"
	"strings"
	"testing"

	"github.com/talostrading/sonic"
	"pgregory.net/rapid"
	"verif/internal/evid"
	"verif/internal/vt"
)

type bbSlot struct {
	slot sonic.Slot
	data []byte
}

type bbModel struct {
	saved, readable, pending []byte
	slots                    []bbSlot // live, in save order
}

func clamp(n, lo, hi int) int {
	if n < lo {
		return lo
	}
	if n > hi {
		return hi
	}
	return n
}

type scriptedReader struct {
	data    []byte
	err     error
	withErr bool // deliver the data together with err in one call (allowed by io.Reader: "n > 0 and err != nil")
}

func (r *scriptedReader) Read(p []byte) (int, error) {
	if r.err != nil && r.withErr {
		return copy(p, r.data), r.err
	}
	if r.err != nil {
		return 0, r.err
	}
	n := copy(p, r.data)
	return n, nil
}

type scriptedWriter struct {
	got    []byte
	chunks []int // accept at most chunks[i] bytes on the i-th call (>=1)
	failAt int   // call index at which to fail (-1 never)
	calls  int
}

var errScripted = errors.New("scripted failure")

func (w *scriptedWriter) Write(p []byte) (int, error) {
	defer func() { w.calls++ }()
	if w.calls == w.failAt {
		return 0, errScripted
	}
	n := len(p)
	if w.calls < len(w.chunks) && w.chunks[w.calls] < n {
		n = w.chunks[w.calls]
	}
	w.got = append(w.got, p[:n]...)
	return n, nil
}

func TestC09_ByteBufferModel(t *testing.T) {
	rec := evid.For("C09")
	rec.SetRule("rapid state machine over the ByteBuffer public API (Write/WriteByte/WriteString, Claim, ClaimFixed, Commit, Consume, Save, Discard, DiscardAll, Reserve, ShrinkBy, ShrinkTo, PrepareRead, Read, ReadByte, UnreadByte, ReadFrom, WriteTo, Reset) with integer arguments from {MinInt,-1,0,1,exact,exact+1,MaxInt-k,MaxInt} and random; compared after every call with a three-slice model and the list of live slots; non-trivial = (growth across reallocation AND Discard of a non-last slot AND a Consume) OR an extreme integer argument; distinct = hash of the call trace")
	rec.Assume("Discard/SavedSlot only with live slots (shifted by the caller for earlier discards); Reserve <= 1 MiB; io.Reader doubles return (n>0,nil) or (0,err); io.Writer doubles return (n>0,nil) or (0,err)")
	vt.CheckSteps(t, 3000, 60, propC09)
}

// FuzzC09ByteBuffer drives the same state machine from coverage-guided bytes (thorough tier).
func FuzzC09ByteBuffer(f *testing.F) { f.Fuzz(rapid.MakeFuzz(propC09)) }

func propC09(t *rapid.T) {
	rec := evid.For("C09")
	{
		b := sonic.NewByteBuffer()
		m := &bbModel{}
		var trace []string
		var tag byte
		grew, discardedMiddle, consumed, extreme := false, false, false, false
		startCap := b.Cap()
		fresh := func(n int) []byte {
			out := make([]byte, n)
			for i := range out {
				tag++
				out[i] = tag
			}
			return out
		}
		intArg := func(lbl string, exact int) int {
			g := rapid.OneOf(
				rapid.IntRange(0, 40),
				rapid.IntRange(0, 40),
				rapid.IntRange(0, 700),
				rapid.Just(exact),
				rapid.Just(exact),
				rapid.Just(exact+1),
				rapid.Just(exact-1),
				rapid.SampledFrom([]int{math.MinInt, math.MinInt + 1, -1, 0, 1, math.MaxInt, math.MaxInt - 1, math.MaxInt - 511, math.MaxInt - 512, math.MaxInt / 2, math.MinInt / 2}),
			)
			v := g.Draw(t, lbl)
			if v < -1 || v > 1<<30 {
				extreme = true
			}
			return v
		}
		log := func(f string, a ...any) { trace = append(trace, fmt.Sprintf(f, a...)) }

		check := func() {
			if !bytes.Equal(b.Saved(), m.saved) {
				t.Fatalf("Saved()=%x model=%x; trace=%v", b.Saved(), m.saved, trace)
			}
			if !bytes.Equal(b.Data(), m.readable) {
				t.Fatalf("Data()=%x model=%x; trace=%v", b.Data(), m.readable, trace)
			}
			if b.SaveLen() != len(m.saved) || b.ReadLen() != len(m.readable) || b.WriteLen() != len(m.pending) {
				t.Fatalf("lengths save/read/write=%d/%d/%d model=%d/%d/%d; trace=%v", b.SaveLen(), b.ReadLen(), b.WriteLen(), len(m.saved), len(m.readable), len(m.pending), trace)
			}
			if b.Len() != b.SaveLen()+b.ReadLen()+b.WriteLen() {
				t.Fatalf("Len()=%d != %d+%d+%d; trace=%v", b.Len(), b.SaveLen(), b.ReadLen(), b.WriteLen(), trace)
			}
			if b.Len() > b.Cap() {
				t.Fatalf("Len()=%d > Cap()=%d; trace=%v", b.Len(), b.Cap(), trace)
			}
			if b.Reserved() != b.Cap()-b.Len() {
				t.Fatalf("Reserved()=%d, Cap-Len=%d; trace=%v", b.Reserved(), b.Cap()-b.Len(), trace)
			}
			for i, s := range m.slots {
				if got := b.SavedSlot(s.slot); !bytes.Equal(got, s.data) {
					t.Fatalf("SavedSlot(%+v) (#%d)=%x, saved %x; trace=%v", s.slot, i, got, s.data, trace)
				}
			}
			if b.Cap() > startCap {
				grew = true
			}
		}

		acts := map[string]func(*rapid.T){
			"write": func(t *rapid.T) {
				n := rapid.OneOf(rapid.IntRange(0, 30), rapid.IntRange(0, 700)).Draw(t, "n")
				d := fresh(n)
				var k int
				var err error
				switch rapid.IntRange(0, 2).Draw(t, "kind") {
				case 0:
					k, err = b.Write(d)
				case 1:
					k, err = b.WriteString(string(d))
				default:
					for _, c := range d {
						if e := b.WriteByte(c); e != nil {
							err = e
						}
						k++
					}
				}
				log("Write(%d)", n)
				if k != n || err != nil {
					t.Fatalf("Write of %d bytes returned (%d,%v); trace=%v", n, k, err, trace)
				}
				m.pending = append(m.pending, d...)
			},
			"commit": func(t *rapid.T) {
				n := intArg("n", len(m.pending))
				b.Commit(n)
				log("Commit(%d)", n)
				k := clamp(n, 0, len(m.pending))
				m.readable = append(m.readable, m.pending[:k]...)
				m.pending = m.pending[k:]
			},
			"consume": func(t *rapid.T) {
				n := intArg("n", len(m.readable))
				b.Consume(n)
				log("Consume(%d)", n)
				k := clamp(n, 0, len(m.readable))
				if k > 0 {
					consumed = true
				}
				m.readable = m.readable[k:]
			},
			"save": func(t *rapid.T) {
				n := intArg("n", len(m.readable))
				s := b.Save(n)
				log("Save(%d)=%+v", n, s)
				k := clamp(n, 0, len(m.readable))
				if k == 0 {
					if s.Length != 0 {
						t.Fatalf("Save(%d) with %d readable returned %+v; trace=%v", n, len(m.readable), s, trace)
					}
					return
				}
				if s.Length != k || s.Index != len(m.saved) {
					t.Fatalf("Save(%d) returned %+v, want {Index:%d Length:%d}; trace=%v", n, s, len(m.saved), k, trace)
				}
				m.slots = append(m.slots, bbSlot{slot: s, data: append([]byte(nil), m.readable[:k]...)})
				m.saved = append(m.saved, m.readable[:k]...)
				m.readable = m.readable[k:]
			},
			"discard": func(t *rapid.T) {
				if len(m.slots) == 0 {
					// zero / negative length slots are ignored
					s := sonic.Slot{Index: rapid.IntRange(0, 5).Draw(t, "idx"), Length: rapid.SampledFrom([]int{0, -1, math.MinInt}).Draw(t, "len")}
					if d := b.Discard(s); d != 0 {
						t.Fatalf("Discard(%+v)=%d; trace=%v", s, d, trace)
					}
					log("Discard(%+v)", s)
					return
				}
				i := rapid.IntRange(0, len(m.slots)-1).Draw(t, "i")
				s := m.slots[i]
				if i != len(m.slots)-1 {
					discardedMiddle = true
				}
				d := b.Discard(s.slot)
				log("Discard(#%d %+v)", i, s.slot)
				if d != s.slot.Length {
					t.Fatalf("Discard(%+v) returned %d; trace=%v", s.slot, d, trace)
				}
				m.saved = append(append([]byte(nil), m.saved[:s.slot.Index]...), m.saved[s.slot.Index+s.slot.Length:]...)
				m.slots = append(m.slots[:i:i], m.slots[i+1:]...)
				for j := i; j < len(m.slots); j++ {
					m.slots[j].slot = sonic.OffsetSlot(s.slot.Length, m.slots[j].slot)
				}
			},
			"discardAll": func(t *rapid.T) {
				if rapid.IntRange(0, 2).Draw(t, "really") != 0 {
					t.Skip()
				}
				b.DiscardAll()
				log("DiscardAll")
				m.saved = nil
				m.slots = nil
			},
			"reserve": func(t *rapid.T) {
				n := rapid.OneOf(rapid.IntRange(-5, 2000), rapid.SampledFrom([]int{math.MinInt, -1, 0, 1, 512, 513, 1 << 16, 1 << 20})).Draw(t, "n")
				b.Reserve(n)
				log("Reserve(%d)", n)
				if n > 0 && b.Reserved() < n {
					t.Fatalf("Reserve(%d) left Reserved()=%d; trace=%v", n, b.Reserved(), trace)
				}
			},
			"shrinkBy": func(t *rapid.T) {
				n := intArg("n", len(m.pending))
				r := b.ShrinkBy(n)
				log("ShrinkBy(%d)=%d", n, r)
				k := clamp(n, 0, len(m.pending))
				if r != k {
					t.Fatalf("ShrinkBy(%d) with %d pending returned %d; trace=%v", n, len(m.pending), r, trace)
				}
				m.pending = m.pending[:len(m.pending)-k]
			},
			"shrinkTo": func(t *rapid.T) {
				n := intArg("n", len(m.pending))
				r := b.ShrinkTo(n)
				log("ShrinkTo(%d)=%d", n, r)
				if n < 0 {
					// clamped (to zero) or ignored: both allowed by the property
					if r != 0 && r != len(m.pending) {
						t.Fatalf("ShrinkTo(%d) with %d pending returned %d; trace=%v", n, len(m.pending), r, trace)
					}
					m.pending = m.pending[:len(m.pending)-r]
					return
				}
				k := len(m.pending) - clamp(n, 0, len(m.pending))
				if r != k {
					t.Fatalf("ShrinkTo(%d) with %d pending returned %d; trace=%v", n, len(m.pending), r, trace)
				}
				m.pending = m.pending[:len(m.pending)-k]
			},
			"prepareRead": func(t *rapid.T) {
				n := intArg("n", len(m.readable)+len(m.pending))
				err := b.PrepareRead(n)
				log("PrepareRead(%d)=%v", n, err)
				if n <= len(m.readable) {
					if n >= 0 && err != nil {
						t.Fatalf("PrepareRead(%d) with %d readable: %v; trace=%v", n, len(m.readable), err, trace)
					}
					return
				}
				need := n - len(m.readable)
				if len(m.pending) >= need {
					if err != nil {
						t.Fatalf("PrepareRead(%d) with %d readable and %d pending: %v; trace=%v", n, len(m.readable), len(m.pending), err, trace)
					}
					m.readable = append(m.readable, m.pending[:need]...)
					m.pending = m.pending[need:]
				} else if err == nil {
					t.Fatalf("PrepareRead(%d) with %d readable and %d pending succeeded; trace=%v", n, len(m.readable), len(m.pending), trace)
				}
			},
			"read": func(t *rapid.T) {
				n := rapid.OneOf(rapid.IntRange(0, 20), rapid.Just(len(m.readable)), rapid.Just(len(m.readable)+1)).Draw(t, "n")
				dst := make([]byte, n)
				k, err := b.Read(dst)
				log("Read(%d)=(%d,%v)", n, k, err)
				want := clamp(n, 0, len(m.readable))
				if k != want || !bytes.Equal(dst[:k], m.readable[:want]) {
					t.Fatalf("Read(%d) returned %d bytes %x, model %x; trace=%v", n, k, dst[:clamp(k, 0, n)], m.readable[:want], trace)
				}
				if k > 0 && err != nil {
					t.Fatalf("Read returned %d bytes with error %v; trace=%v", k, err, trace)
				}
				if k > 0 {
					consumed = true
				}
				m.readable = m.readable[want:]
			},
			"readByte": func(t *rapid.T) {
				c, err := b.ReadByte()
				log("ReadByte=(%x,%v)", c, err)
				if len(m.readable) == 0 {
					if err == nil {
						t.Fatalf("ReadByte on an empty read area returned byte %#x with nil error; trace=%v", c, trace)
					}
					return
				}
				if err != nil || c != m.readable[0] {
					t.Fatalf("ReadByte=(%#x,%v), model %#x; trace=%v", c, err, m.readable[0], trace)
				}
				m.readable = m.readable[1:]
			},
			"unreadByte": func(t *rapid.T) {
				err := b.UnreadByte()
				log("UnreadByte=%v", err)
				if len(m.pending) == 0 {
					if err == nil {
						t.Fatalf("UnreadByte with empty write area succeeded; trace=%v", trace)
					}
					return
				}
				if err != nil {
					t.Fatalf("UnreadByte: %v; trace=%v", err, trace)
				}
				m.pending = m.pending[:len(m.pending)-1]
			},
			"readFrom": func(t *rapid.T) {
				n := rapid.IntRange(0, 600).Draw(t, "n")
				r := &scriptedReader{data: fresh(n)}
				switch rapid.IntRange(0, 7).Draw(t, "fail") {
				case 0:
					r.err = errScripted
				case 1:
					r.err, r.withErr = io.EOF, true // the last chunk of a stream, delivered with its EOF
				}
				room := b.Reserved()
				k, err := b.ReadFrom(r)
				log("ReadFrom(%d,room=%d,err=%v,withData=%v)=(%d,%v)", n, room, r.err, r.withErr, k, err)
				if r.withErr {
					// the error must be passed on; whether the bytes that came with it are kept (appended to the
					// uncommitted area) or dropped is the library's choice, but it must be one of the two, completely
					if err == nil {
						t.Fatalf("ReadFrom with a reader returning data and %v returned (%d,nil); trace=%v", r.err, k, trace)
					}
					got := clamp(n, 0, room)
					if b.WriteLen() == len(m.pending)+got && got > 0 {
						m.pending = append(m.pending, r.data[:got]...)
					}
					return
				}
				if r.err != nil {
					if err == nil || k != 0 {
						t.Fatalf("ReadFrom with failing reader returned (%d,%v); trace=%v", k, err, trace)
					}
					return
				}
				want := clamp(n, 0, room)
				if err != nil || int(k) != want {
					t.Fatalf("ReadFrom: got (%d,%v), want %d; trace=%v", k, err, want, trace)
				}
				m.pending = append(m.pending, r.data[:want]...)
			},
			"writeTo": func(t *rapid.T) {
				w := &scriptedWriter{failAt: -1}
				w.chunks = rapid.SliceOfN(rapid.IntRange(1, 50), 0, 4).Draw(t, "chunks")
				if rapid.IntRange(0, 3).Draw(t, "fail") == 0 {
					w.failAt = rapid.IntRange(0, 3).Draw(t, "failAt")
				}
				before := append([]byte(nil), m.readable...)
				k, err := b.WriteTo(w)
				log("WriteTo(chunks=%v,failAt=%d)=(%d,%v)", w.chunks, w.failAt, k, err)
				if int(k) != len(w.got) || !bytes.Equal(w.got, before[:len(w.got)]) {
					t.Fatalf("WriteTo returned %d, writer received %x, readable was %x; trace=%v", k, w.got, before, trace)
				}
				if err == nil && int(k) != len(before) {
					t.Fatalf("WriteTo succeeded with %d of %d bytes; trace=%v", k, len(before), trace)
				}
				if k > 0 {
					consumed = true
				}
				m.readable = m.readable[k:]
			},
			"claim": func(t *rapid.T) {
				room := b.Reserved()
				want := rapid.IntRange(0, room).Draw(t, "k")
				ret := rapid.OneOf(rapid.Just(want), rapid.Just(want), rapid.Just(want),
					rapid.SampledFrom([]int{-1, math.MinInt, math.MaxInt, math.MaxInt - 1, room + 1, math.MaxInt - room, math.MaxInt - room + 1})).Draw(t, "ret")
				if ret < -1 || ret > 1<<30 {
					extreme = true
				}
				var wrote []byte
				b.Claim(func(p []byte) int {
					if len(p) != room {
						t.Fatalf("Claim handed out %d bytes, Reserved()=%d; trace=%v", len(p), room, trace)
					}
					d := fresh(want)
					copy(p, d)
					wrote = d
					return ret
				})
				log("Claim(room=%d,wrote=%d,ret=%d)", room, want, ret)
				if ret >= 0 && ret <= room {
					// the callback's count is authoritative
					if ret <= want {
						m.pending = append(m.pending, wrote[:ret]...)
					} else {
						t.Fatalf("generator bug")
					}
				}
			},
			"claimFixed": func(t *rapid.T) {
				room := b.Reserved()
				n := intArg("n", room)
				c := b.ClaimFixed(n)
				log("ClaimFixed(%d;room=%d)=%d", n, room, len(c))
				if n >= 0 && n <= room {
					if len(c) != n {
						t.Fatalf("ClaimFixed(%d) with %d reserved returned %d bytes; trace=%v", n, room, len(c), trace)
					}
					d := fresh(n)
					copy(c, d)
					m.pending = append(m.pending, d...)
				} else if c != nil {
					t.Fatalf("ClaimFixed(%d) with %d reserved returned %d bytes; trace=%v", n, room, len(c), trace)
				}
			},
			"reset": func(t *rapid.T) {
				if rapid.IntRange(0, 5).Draw(t, "really") != 0 {
					t.Skip()
				}
				b.Reset()
				log("Reset")
				*m = bbModel{}
			},
			"": func(t *rapid.T) { check() },
		}
		// weight the basic data-moving operations
		acts["write2"] = acts["write"]
		acts["commit2"] = acts["commit"]
		acts["save2"] = acts["save"]
		acts["save3"] = acts["save"]
		acts["discard2"] = acts["discard"]
		t.Repeat(acts)

		// pending bytes were never visible; now commit everything and compare
		b.Commit(len(m.pending))
		m.readable = append(m.readable, m.pending...)
		m.pending = nil
		check()

		nt := (grew && discardedMiddle && consumed) || extreme
		var cls []string
		if extreme {
			cls = append(cls, "extreme-int")
		}
		if grew {
			cls = append(cls, "grew")
		}
		if discardedMiddle {
			cls = append(cls, "discard-non-last")
		}
		if grew && discardedMiddle && consumed {
			cls = append(cls, "grow+discard-middle+consume")
		}
		rec.Case(strings.Join(trace, ","), nt, cls, map[string]any{"ops": trace})
	}
}

var _ = io.EOF
