package buffers

// C10 — BipBuffer is a FIFO of contiguous chunks whose claims never overlap queued data.
//
// Generator: buffer size, then a history of Claim/Commit/Consume/Head/Reset with
// non-negative amounts. Oracle: reference FIFO of chunks with physical offsets
// (measured through pointer differences against the first claim of the fresh
// buffer).

import (
	"bytes"
	"fmt"
	"math"
	"strings"
	"testing"
	"unsafe"

	"github.com/talostrading/sonic"
	"pgregory.net/rapid"
	"verif/internal/evid"
	"verif/internal/vt"
)

type bipChunk struct {
	off  int
	data []byte
}

type bipModel struct {
	size   int
	chunks []bipChunk // committed, unconsumed, FIFO; first may be partially consumed
}

func (m *bipModel) total() int {
	n := 0
	for _, c := range m.chunks {
		n += len(c.data)
	}
	return n
}

func (m *bipModel) occupied(off int) bool {
	for _, c := range m.chunks {
		if off >= c.off && off < c.off+len(c.data) {
			return true
		}
	}
	return false
}

func (m *bipModel) fifo() []byte {
	var b []byte
	for _, c := range m.chunks {
		b = append(b, c.data...)
	}
	return b
}

func (m *bipModel) consume(k int) {
	for k > 0 && len(m.chunks) > 0 {
		c := &m.chunks[0]
		if k >= len(c.data) {
			k -= len(c.data)
			m.chunks = m.chunks[1:]
		} else {
			c.off += k
			c.data = c.data[k:]
			k = 0
		}
	}
}

func TestC10_BipModel(t *testing.T) {
	rec := evid.For("C10")
	rec.SetRule("rapid state machine over BipBuffer sizes 1..64 (+ occasional up to 4096): Claim(n)/write tag bytes/Commit(m)/Consume(k)/Head/Reset with non-negative amounts (Consume also with amounts up to MaxInt), compared after every step with a FIFO-of-chunks model carrying physical offsets; non-trivial = the history had a wrapped region AND a claim outstanding across a Consume; distinct = hash of the operation trace")
	vt.CheckSteps(t, 4000, 80, propC10)
}

// FuzzC10BipBuffer drives the same state machine from coverage-guided bytes (thorough tier).
func FuzzC10BipBuffer(f *testing.F) { f.Fuzz(rapid.MakeFuzz(propC10)) }

func propC10(t *rapid.T) {
	rec := evid.For("C10")
	{
		size := rapid.OneOf(rapid.IntRange(1, 16), rapid.IntRange(1, 64), rapid.IntRange(65, 4096)).Draw(t, "size")
		buf := sonic.NewBipBuffer(size)
		full := buf.Claim(size)
		if len(full) != size {
			t.Fatalf("fresh buffer of size %d granted a claim of %d", size, len(full))
		}
		base := uintptr(unsafe.Pointer(&full[0]))
		buf.Commit(0)
		if !buf.Empty() {
			t.Fatalf("buffer not empty after Commit(0)")
		}

		m := &bipModel{size: size}
		var claim []byte // outstanding claim (nil if none)
		claimOff := 0
		var tag byte
		var trace []string
		sawWrapped, claimAcrossConsume, weakConsume := false, false, false
		amount := func(lbl string, exact int) int {
			small := rapid.IntRange(0, size/3+1)
			return rapid.OneOf(small, small, small, small,
				rapid.IntRange(0, size+2),
				rapid.Just(exact),
				rapid.Just(size),
			).Draw(t, lbl)
		}

		check := func() {
			if got, want := buf.Committed(), m.total(); got != want {
				t.Fatalf("Committed()=%d, model has %d committed-unconsumed bytes; trace=%v", got, want, trace)
			}
			if got := buf.Claimed(); got != len(claim) {
				t.Fatalf("Claimed()=%d, outstanding claim is %d bytes; trace=%v", got, len(claim), trace)
			}
			h := buf.Head()
			if m.total() == 0 {
				if len(h) != 0 {
					t.Fatalf("Head() has %d bytes but nothing is queued; trace=%v", len(h), trace)
				}
			} else {
				if len(h) < len(m.chunks[0].data) {
					t.Fatalf("Head() has %d bytes, oldest chunk has %d unconsumed bytes (chunk split or hidden); trace=%v", len(h), len(m.chunks[0].data), trace)
				}
				f := m.fifo()
				if len(h) > len(f) || !bytes.Equal(h, f[:len(h)]) {
					t.Fatalf("Head()=%x is not a prefix of the committed FIFO %x; trace=%v", h, f, trace)
				}
				// Head must end on a chunk boundary: every chunk is readable as one slice.
				n := 0
				for _, c := range m.chunks {
					n += len(c.data)
					if n >= len(h) {
						break
					}
				}
				if n != len(h) {
					t.Fatalf("Head() of %d bytes ends inside a chunk (boundary at %d); trace=%v", len(h), n, trace)
				}
				if off := int(uintptr(unsafe.Pointer(&h[0])) - base); off != m.chunks[0].off {
					t.Fatalf("Head() at physical offset %d, oldest chunk lives at %d; trace=%v", off, m.chunks[0].off, trace)
				}
			}
			if buf.Wrapped() {
				sawWrapped = true
			}
		}

		var doClaim, doCommit func(t *rapid.T)
		doClaim = func(t *rapid.T) {
			n := amount("n", size-m.total())
			wasEmpty := buf.Empty()
			c := buf.Claim(n)
			trace = append(trace, fmt.Sprintf("Claim(%d)=%d", n, len(c)))
			if len(c) > n {
				t.Fatalf("Claim(%d) returned %d bytes; trace=%v", n, len(c), trace)
			}
			if wasEmpty {
				want := n
				if want > size {
					want = size
				}
				if len(c) != want {
					t.Fatalf("empty buffer of size %d: Claim(%d) returned %d bytes; trace=%v", size, n, len(c), trace)
				}
			}
			claim = nil
			if len(c) > 0 {
				off := int(uintptr(unsafe.Pointer(&c[0])) - base)
				if off < 0 || off+len(c) > size {
					t.Fatalf("claim [%d,%d) outside the buffer of size %d; trace=%v", off, off+len(c), size, trace)
				}
				for i := 0; i < len(c); i++ {
					if m.occupied(off + i) {
						t.Fatalf("claim [%d,%d) overlaps committed-unconsumed byte at %d; trace=%v", off, off+len(c), off+i, trace)
					}
				}
				// write a unique pattern into the whole claim
				for i := range c {
					tag++
					if tag == 0 {
						tag = 1
					}
					c[i] = tag
				}
				claim = c
				claimOff = off
			}
		}
		doCommit = func(t *rapid.T) {
			mm := amount("m", len(claim))
			out := buf.Commit(mm)
			want := mm
			if want > len(claim) {
				want = len(claim)
			}
			trace = append(trace, fmt.Sprintf("Commit(%d)=%d", mm, len(out)))
			if len(out) != want {
				t.Fatalf("Commit(%d) with a claim of %d returned %d bytes; trace=%v", mm, len(claim), len(out), trace)
			}
			if want > 0 {
				if !bytes.Equal(out, claim[:want]) {
					t.Fatalf("Commit returned %x, wrote %x; trace=%v", out, claim[:want], trace)
				}
				if off := int(uintptr(unsafe.Pointer(&out[0])) - base); off != claimOff {
					t.Fatalf("Commit returned a slice at %d, claim was at %d; trace=%v", off, claimOff, trace)
				}
				m.chunks = append(m.chunks, bipChunk{off: claimOff, data: append([]byte(nil), claim[:want]...)})
			}
			claim = nil
		}
		push := func(t *rapid.T) { doClaim(t); doCommit(t) }
		t.Repeat(map[string]func(*rapid.T){
			"claim":  doClaim,
			"commit": doCommit,
			"push1":  push,
			"push2":  push,
			"consume2": func(t *rapid.T) {
				h := len(buf.Head())
				k := rapid.IntRange(0, h).Draw(t, "k")
				if len(claim) > 0 && k > 0 {
					claimAcrossConsume = true
				}
				buf.Consume(k)
				trace = append(trace, fmt.Sprintf("Consume(%d;head=%d)", k, h))
				m.consume(k)
			},
			"consume": func(t *rapid.T) {
				h := len(buf.Head())
				part := rapid.IntRange(0, h)
				k := rapid.OneOf(part, part, part, part, part, rapid.Just(h), rapid.Just(h), rapid.IntRange(h, h+3),
					// "drop everything": every non-negative size is in the quantifier, also the ones next to MaxInt
					rapid.SampledFrom([]int{math.MaxInt, math.MaxInt - 1, math.MaxInt - 2, math.MaxInt - 3, math.MaxInt - 7, 1 << 62, 1 << 31})).Draw(t, "k")
				if len(claim) > 0 && k > 0 {
					claimAcrossConsume = true
				}
				buf.Consume(k)
				trace = append(trace, fmt.Sprintf("Consume(%d;head=%d)", k, h))
				if k > h {
					weakConsume = true
					k = h // documented use is k <= len(Head()); beyond that only the primary region is consumed
				}
				m.consume(k)
			},
			"reset": func(t *rapid.T) {
				if rapid.IntRange(0, 3).Draw(t, "really") != 0 {
					t.Skip("reset rarely")
				}
				buf.Reset()
				trace = append(trace, "Reset")
				m.chunks = nil
				claim = nil
				if !buf.Empty() {
					t.Fatalf("not empty after Reset")
				}
			},
			"": func(t *rapid.T) { check() },
		})
		// drain: Head/Consume must reproduce commit order
		want := m.fifo()
		var got []byte
		for i := 0; i < size+2; i++ {
			h := buf.Head()
			if len(h) == 0 {
				break
			}
			got = append(got, h...)
			buf.Consume(len(h))
		}
		if !bytes.Equal(got, want) {
			t.Fatalf("drain gave %x, commit order is %x; trace=%v", got, want, trace)
		}
		if buf.Committed() != 0 {
			t.Fatalf("Committed()=%d after drain; trace=%v", buf.Committed(), trace)
		}
		var cls []string
		if sawWrapped {
			cls = append(cls, "wrapped")
		}
		if claimAcrossConsume {
			cls = append(cls, "claim-across-consume")
		}
		if weakConsume {
			cls = append(cls, "consume-beyond-head")
		}
		rec.Case(fmt.Sprintf("%d|%s", size, strings.Join(trace, ",")), sawWrapped && claimAcrossConsume, cls,
			map[string]any{"size": size, "ops": trace})
	}
}
