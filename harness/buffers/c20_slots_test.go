package buffers

// C20 — out-of-order slot retrieval addresses exactly the bytes saved.

import (
	"bytes"
	"fmt"
	"strings"
	"testing"

	"github.com/talostrading/sonic"
	"pgregory.net/rapid"
	"verif/internal/evid"
	"verif/internal/vt"
)

type parked struct {
	seq  int
	data []byte
}

func concatParked(ps []parked) []byte {
	var out []byte
	for _, p := range ps {
		out = append(out, p.data...)
	}
	return out
}

func TestC20_SlotSequencerModel(t *testing.T) {
	rec := evid.For("C20")
	rec.SetRule("rapid state machine over ByteBuffer+SlotSequencer (maxSlots 1..8, maxBytes 8..256) and over ByteBuffer+SlotOffsetter: packets of unique bytes arrive in batches of 1..3 (committed together, optionally followed by an uncommitted part of the next one) and are Saved one by one, Push(seq) with seq from a small range incl. negatives and duplicates, Pop(seq) of present/absent numbers followed by Discard, rejected pushes discard their own slot; model = seq->bytes in save order; non-trivial = (>=2 pops of non-oldest slots while older ones stay parked, then a push whose slot is popped later, sequencer never drained in between) OR a capacity error; distinct = hash of the trace")
	rec.Assume("Save is immediately followed by Push (the documented workflow); a popped slot is discarded before the next Pop; a rejected push is followed by the caller discarding its own freshly saved slot")
	vt.CheckSteps(t, 3000, 60, func(t *rapid.T) {
		maxSlots := rapid.IntRange(1, 8).Draw(t, "maxSlots")
		maxBytes := rapid.OneOf(rapid.IntRange(8, 64), rapid.IntRange(8, 256)).Draw(t, "maxBytes")
		seqLo := rapid.SampledFrom([]int{-3, 0, 100}).Draw(t, "seqLo")
		b := sonic.NewByteBuffer()
		s := sonic.NewSlotSequencer(maxSlots, maxBytes)
		var live []parked    // in save order
		var pending [][]byte // packets of the current batch, committed and not yet saved
		var partial []byte   // bytes of the next packet, written and not yet committed
		var trace []string
		var tag byte
		find := func(seq int) int {
			for i, p := range live {
				if p.seq == seq {
					return i
				}
			}
			return -1
		}
		total := func() int {
			n := 0
			for _, p := range live {
				n += len(p.data)
			}
			return n
		}
		// non-triviality tracking
		nonOldestPops := 0
		pushedAfter := map[int]bool{}
		achieved, capErr, offsetterFull, dup := false, false, false, false
		neverDrained := true

		check := func() {
			if s.Size() != len(live) {
				t.Fatalf("Size()=%d, %d parked; trace=%v", s.Size(), len(live), trace)
			}
			if s.Bytes() != total() {
				t.Fatalf("Bytes()=%d, %d parked bytes; trace=%v", s.Bytes(), total(), trace)
			}
			if !bytes.Equal(b.Saved(), concatParked(live)) {
				t.Fatalf("Saved()=%x, parked packets are %x; trace=%v", b.Saved(), concatParked(live), trace)
			}
			if want := bytes.Join(pending, nil); !bytes.Equal(b.Data(), want) {
				t.Fatalf("read area holds %x, the packets of the batch not yet handled are %x; trace=%v", b.Data(), want, trace)
			}
			if b.WriteLen() != len(partial) {
				t.Fatalf("write area holds %d bytes, %d were received and not committed; trace=%v", b.WriteLen(), len(partial), trace)
			}
		}

		push := func(t *rapid.T) {
			n := rapid.OneOf(rapid.IntRange(1, 8), rapid.IntRange(1, 8), rapid.IntRange(1, 40)).Draw(t, "n")
			seq := seqLo + rapid.IntRange(0, 11).Draw(t, "seq")
			// packets arrive in batches: up to three are committed at once and handled one after the other, so the packets
			// behind the one being saved (and a partly received one behind those) sit in the buffer while slots of earlier
			// packets are popped and discarded
			if len(pending) == 0 {
				k := rapid.IntRange(1, 3).Draw(t, "batch")
				for j := 0; j < k; j++ {
					ln := n
					if j > 0 {
						ln = rapid.IntRange(1, 8).Draw(t, "bn")
					}
					pkt := append([]byte(nil), partial...)
					for len(pkt) < ln || len(pkt) == len(partial) {
						tag++
						pkt = append(pkt, tag)
					}
					_, _ = b.Write(pkt[len(partial):])
					b.Commit(len(pkt))
					partial = nil
					pending = append(pending, pkt)
				}
				if rapid.IntRange(0, 2).Draw(t, "partial") == 0 {
					for j, pn := 0, rapid.IntRange(1, 4).Draw(t, "pn"); j < pn; j++ {
						tag++
						partial = append(partial, tag)
					}
					_, _ = b.Write(partial) // received, not yet committed
				}
			}
			data := pending[0]
			pending = pending[1:]
			n = len(data)
			slot := b.Save(n)
			if slot.Length != n {
				t.Fatalf("Save(%d) returned %+v; trace=%v", n, slot, trace)
			}
			ok, err := s.Push(seq, slot)
			trace = append(trace, fmt.Sprintf("Push(%d,len=%d)=(%v,%v)", seq, n, ok, err != nil))
			isDup := find(seq) >= 0
			over := len(live) >= maxSlots || total()+n > maxBytes
			switch {
			case ok:
				if err != nil {
					t.Fatalf("Push ok with error %v; trace=%v", err, trace)
				}
				if isDup {
					t.Fatalf("duplicate sequence number %d accepted; trace=%v", seq, trace)
				}
				if over {
					t.Fatalf("push beyond capacity accepted (slots %d/%d bytes %d+%d/%d); trace=%v", len(live), maxSlots, total(), n, maxBytes, trace)
				}
				live = append(live, parked{seq, data})
				if nonOldestPops >= 2 && neverDrained {
					pushedAfter[seq] = true
				}
			default:
				if isDup {
					dup = true
				} else if err == nil {
					t.Fatalf("Push(%d) of a new sequence number rejected without an error; trace=%v", seq, trace)
				}
				if err != nil {
					if err != sonic.ErrNoSpaceLeftForSlot {
						t.Fatalf("Push error %v; trace=%v", err, trace)
					}
					if over {
						capErr = true
					} else if !isDup {
						offsetterFull = true // index space of a never-drained offsetter ran out: reported as an error
					}
				}
				// the caller gets rid of its own freshly saved slot
				if got := b.SavedSlot(slot); !bytes.Equal(got, data) {
					t.Fatalf("freshly saved slot reads %x, wrote %x; trace=%v", got, data, trace)
				}
				b.Discard(slot)
			}
		}
		pop := func(t *rapid.T) {
			var seq int
			if len(live) > 0 && rapid.IntRange(0, 4).Draw(t, "present") != 0 {
				seq = live[rapid.IntRange(0, len(live)-1).Draw(t, "which")].seq
			} else {
				seq = seqLo + rapid.IntRange(-1, 12).Draw(t, "seq")
			}
			i := find(seq)
			slot, ok := s.Pop(seq)
			trace = append(trace, fmt.Sprintf("Pop(%d)=%v", seq, ok))
			if ok != (i >= 0) {
				t.Fatalf("Pop(%d) ok=%v, model has it: %v; trace=%v", seq, ok, i >= 0, trace)
			}
			if !ok {
				return
			}
			if slot.Index < 0 || slot.Index+slot.Length > b.SaveLen() {
				t.Fatalf("Pop(%d) returned %+v outside the save area of %d bytes; trace=%v", seq, slot, b.SaveLen(), trace)
			}
			if got := b.SavedSlot(slot); !bytes.Equal(got, live[i].data) {
				t.Fatalf("Pop(%d) addresses %x, saved %x; trace=%v", seq, got, live[i].data, trace)
			}
			if d := b.Discard(slot); d != len(live[i].data) {
				t.Fatalf("Discard returned %d, packet had %d bytes; trace=%v", d, len(live[i].data), trace)
			}
			if i > 0 {
				nonOldestPops++
			}
			if pushedAfter[seq] && neverDrained {
				achieved = true
			}
			delete(pushedAfter, seq)
			live = append(live[:i:i], live[i+1:]...)
			if len(live) == 0 {
				neverDrained = true
				nonOldestPops = 0
				pushedAfter = map[int]bool{}
			}
		}
		acts := map[string]func(*rapid.T){
			"push": push, "push2": push, "push3": push,
			"pop": pop, "pop2": pop,
			"reset": func(t *rapid.T) {
				if rapid.IntRange(0, 9).Draw(t, "really") != 0 {
					t.Skip()
				}
				s.Reset()
				b.DiscardAll()
				live = nil
				nonOldestPops = 0
				pushedAfter = map[int]bool{}
				trace = append(trace, "Reset")
			},
			"": func(t *rapid.T) { check() },
		}
		t.Repeat(acts)
		// drain in a generated order
		for len(live) > 0 {
			pop(t)
			check()
		}
		var cls []string
		if achieved {
			cls = append(cls, "interleaved-never-drained")
		}
		if capErr {
			cls = append(cls, "capacity-error")
		}
		if offsetterFull {
			cls = append(cls, "offsetter-index-space-exhausted")
		}
		if dup {
			cls = append(cls, "duplicate")
		}
		rec.Case(fmt.Sprintf("%d/%d/%d|%s", maxSlots, maxBytes, seqLo, strings.Join(trace, ",")), achieved || capErr, cls,
			map[string]any{"maxSlots": maxSlots, "maxBytes": maxBytes, "ops": trace})
	})
}

func TestC20_SlotOffsetterModel(t *testing.T) {
	rec := evid.For("C20")
	vt.CheckSteps(t, 2000, 60, func(t *rapid.T) {
		maxBytes := rapid.OneOf(rapid.IntRange(8, 64), rapid.IntRange(64, 1024)).Draw(t, "maxBytes")
		b := sonic.NewByteBuffer()
		o := sonic.NewSlotOffsetter(maxBytes)
		type ent struct {
			slot sonic.Slot
			data []byte
		}
		var live []ent
		var trace []string
		var tag byte
		nonOldest, achieved, capErr := 0, false, false
		var addedAfter []bool
		check := func() {
			var want []byte
			for _, e := range live {
				want = append(want, e.data...)
			}
			if !bytes.Equal(b.Saved(), want) {
				t.Fatalf("Saved()=%x want %x; trace=%v", b.Saved(), want, trace)
			}
		}
		t.Repeat(map[string]func(*rapid.T){
			"add": func(t *rapid.T) {
				n := rapid.IntRange(1, 12).Draw(t, "n")
				data := make([]byte, n)
				for i := range data {
					tag++
					data[i] = tag
				}
				_, _ = b.Write(data)
				b.Commit(n)
				slot := b.Save(n)
				s2, err := o.Add(slot)
				trace = append(trace, fmt.Sprintf("Add(len=%d)=%v", n, err != nil))
				if err != nil {
					if err != sonic.ErrNoSpaceLeftForSlot {
						t.Fatalf("Add: %v", err)
					}
					capErr = true
					b.Discard(slot)
					return
				}
				live = append(live, ent{s2, data})
				addedAfter = append(addedAfter, nonOldest >= 2)
			},
			"offset": func(t *rapid.T) {
				if len(live) == 0 {
					t.Skip()
				}
				i := rapid.IntRange(0, len(live)-1).Draw(t, "i")
				slot := o.Offset(live[i].slot)
				trace = append(trace, fmt.Sprintf("Offset(#%d)", i))
				if slot.Index < 0 || slot.Index+slot.Length > b.SaveLen() {
					t.Fatalf("Offset returned %+v outside the save area (%d); trace=%v", slot, b.SaveLen(), trace)
				}
				if got := b.SavedSlot(slot); !bytes.Equal(got, live[i].data) {
					t.Fatalf("Offset(#%d) addresses %x, saved %x; trace=%v", i, got, live[i].data, trace)
				}
				b.Discard(slot)
				if i > 0 {
					nonOldest++
				}
				if addedAfter[i] {
					achieved = true
				}
				live = append(live[:i:i], live[i+1:]...)
				addedAfter = append(addedAfter[:i:i], addedAfter[i+1:]...)
				if len(live) == 0 && rapid.Bool().Draw(t, "reset") {
					o.Reset()
					nonOldest = 0
					trace = append(trace, "Reset")
				}
			},
			"": func(t *rapid.T) { check() },
		})
		var cls []string
		cls = append(cls, "offsetter")
		if achieved {
			cls = append(cls, "offsetter-interleaved")
		}
		rec.Case(fmt.Sprintf("off/%d|%s", maxBytes, strings.Join(trace, ",")), achieved || capErr, cls, map[string]any{"maxBytes": maxBytes, "ops": trace})
	})
}
