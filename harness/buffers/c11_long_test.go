package buffers

// C11 over a long history: the claim handed out after N bytes have gone through the ring starts where those N bytes end,
// for every N - including the N beyond 2^32, where a 32-bit running total wraps, on rings whose size does not divide 2^32.

import (
	"fmt"
	"os"
	"testing"
	"unsafe"

	sbytes "github.com/talostrading/sonic/bytes"
	"pgregory.net/rapid"
	"verif/internal/evid"
	"verif/internal/vt"
)

func TestC11_LongHistory(t *testing.T) {
	rec := evid.For("C11")
	rec.SetRule("long histories: rings of 1..7 and 17 pages with 1..200 bytes permanently unconsumed; each round claims all free space, checks that the claim starts at (bytes committed so far) mod size, commits it and consumes as much from the head, until more than 2^32 (+ a few rounds) bytes have gone through; committed-but-unconsumed bytes keep their tag; non-trivial = a size that does not divide 2^32")
	page := os.Getpagesize()
	vt.Check(t, 4, func(rt *rapid.T) {
		pages := rapid.SampledFrom([]int{3, 3, 5, 6, 7, 17, 1, 2, 4}).Draw(rt, "pages")
		keep := rapid.IntRange(1, 200).Draw(rt, "keep")
		size := pages * page
		b, err := sbytes.NewMirroredBuffer(size, false)
		if err != nil {
			rt.Fatalf("INFRA: NewMirroredBuffer(%d): %v", size, err)
		}
		defer b.Destroy()
		first := b.Claim(keep)
		if len(first) != keep {
			rt.Fatalf("Claim(%d) on an empty ring of %d returned %d bytes", keep, size, len(first))
		}
		base := uintptr(unsafe.Pointer(&first[0]))
		for i := range first {
			first[i] = 0xA5
		}
		b.Commit(keep)
		var total uint64 = uint64(keep)
		target := uint64(1)<<32 + uint64(8*size)
		n := size - keep
		tag := byte(1)
		for round := 0; total < target; round++ {
			c := b.Claim(n)
			if len(c) != n {
				rt.Fatalf("round %d: Claim(%d) with %d bytes free returned %d bytes", round, n, b.FreeSpace(), len(c))
			}
			if got, want := int(uintptr(unsafe.Pointer(&c[0]))-base), int(total%uint64(size)); got != want {
				rt.Fatalf("round %d (ring of %d pages, %d bytes committed so far): the claim starts at ring position %d, the commits so far end at position %d", round, pages, total, got, want)
			}
			// only the first and last byte are written: enough to see a claim that overlaps unconsumed bytes
			c[0], c[n-1] = tag, tag
			b.Commit(n)
			total += uint64(n)
			if u := b.UsedSpace(); u != size {
				rt.Fatalf("round %d: UsedSpace()=%d after filling the ring of %d", round, u, size)
			}
			b.Consume(n)
			if u, f := b.UsedSpace(), b.FreeSpace(); u != keep || u+f != size {
				rt.Fatalf("round %d: used=%d free=%d after consuming %d of %d", round, u, f, n, size)
			}
			tag++
			if tag == 0 {
				tag = 1
			}
		}
		rec.Case(fmt.Sprintf("long|%d|%d", pages, keep), size&(size-1) != 0, []string{"long-history"}, map[string]any{"pages": pages, "keep": keep, "bytes_through": total})
	})
}
