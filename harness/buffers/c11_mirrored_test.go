package buffers

// C11 — MirroredBuffer is a contiguous-claim ring for every accepted size.

import (
	"fmt"
	"math"
	"os"
	"strings"
	"syscall"
	"testing"
	"unsafe"

	sbytes "github.com/talostrading/sonic/bytes"
	"pgregory.net/rapid"
	"verif/internal/evid"
	"verif/internal/vt"
)

func mapsMention(name string) bool {
	b, err := os.ReadFile("/proc/self/maps")
	if err != nil {
		return false
	}
	return strings.Contains(string(b), name)
}

func TestC11_MirroredModel(t *testing.T) {
	rec := evid.For("C11")
	page := syscall.Getpagesize()
	rec.SetRule("rapid state machine over MirroredBuffer sizes {1,2,3,5,6,7,8,12,32 pages, 1, page-1, page+1, 3*page-7 (rounded up), 1 MiB, 2 MiB, 2 MiB-2048, 2 MiB+page, 6 MiB}: Claim/Commit/Consume/Reset with amounts from {0,1,page-1,page,free,free+1,used,used+1,size,size+1,2^40,MaxInt,MaxInt-used,random}; tag bytes written through every claim; oracle = ring model (claim offset from the first claim == total committed mod Size, length == min(n,free), mirror aliasing checked through a 2*Size view, committed bytes intact, used+free==Size), Destroy leaves no mapping and no backing file; non-trivial = size not a power of two AND the tail wrapped at least once; distinct = hash of size + trace")
	rec.Assume("amounts are non-negative; Destroy is called once per buffer")
	vt.CheckSteps(t, 400, 50, func(t *rapid.T) {
		req := rapid.SampledFrom([]int{page, 2 * page, 3 * page, 5 * page, 6 * page, 7 * page, 8 * page, 12 * page, 32 * page, 1, page - 1, page + 1, 3*page - 7, 2*page + 1,
			page, 3 * page, 5 * page, 2 * page, 1 << 20, 2 << 20, 2<<20 - 2048, 6 << 20, 2<<20 + page}).Draw(t, "size")
		b, err := sbytes.NewMirroredBuffer(req, rapid.Bool().Draw(t, "prefault"))
		if err != nil {
			t.Fatalf("NewMirroredBuffer(%d): %v", req, err)
		}
		name := b.Name()
		destroyed := false
		defer func() {
			if !destroyed {
				_ = b.Destroy()
			}
		}()
		size := b.Size()
		if size < req || size%page != 0 || size-req >= page {
			t.Fatalf("NewMirroredBuffer(%d) has Size()=%d", req, size)
		}
		first := b.Claim(1)
		if len(first) != 1 {
			t.Fatalf("fresh buffer: Claim(1) returned %d bytes", len(first))
		}
		view := unsafe.Slice(&first[0], 2*size) // the double mapping seen from the ring start
		basePtr := uintptr(unsafe.Pointer(&first[0]))

		ring := make([]byte, size) // what the model believes each ring position holds (committed region only matters)
		head, used, committedTotal := 0, 0, 0
		var trace []string
		var tag byte
		wrapped := false
		crossed := false

		amount := func(lbl string) int {
			free := size - used
			return rapid.OneOf(
				rapid.IntRange(0, size+1),
				rapid.IntRange(0, size+1),
				rapid.IntRange(0, 64),
				rapid.SampledFrom([]int{0, 1, page - 1, page, page + 1, free, free + 1, free - 1, used, used + 1, size, size + 1, size / 2, size/2 + 1, 1 << 40,
					math.MaxInt, math.MaxInt - 1, math.MaxInt - used, math.MaxInt - used + 1, math.MaxInt - size, math.MaxInt / 2}),
			).Draw(t, lbl)
		}
		nonneg := func(v int) int {
			if v < 0 {
				return 0
			}
			return v
		}
		check := func() {
			if b.UsedSpace()+b.FreeSpace() != size {
				t.Fatalf("UsedSpace+FreeSpace=%d+%d != Size %d; trace=%v", b.UsedSpace(), b.FreeSpace(), size, trace)
			}
			if b.UsedSpace() != used {
				t.Fatalf("UsedSpace()=%d model %d; trace=%v", b.UsedSpace(), used, trace)
			}
			if b.Full() != (used == size) {
				t.Fatalf("Full()=%v with used=%d size=%d; trace=%v", b.Full(), used, size, trace)
			}
			// committed-unconsumed bytes are intact, in both halves of the mapping
			for i := 0; i < used; i++ {
				if used > 16384 && i == 8192 {
					i = used - 8192 // large rings: the first and the last 8 KiB of the committed region
				}
				p := (head + i) % size
				if view[p] != ring[p] || view[p+size] != ring[p] {
					t.Fatalf("committed byte at ring position %d reads %#x/%#x, model %#x; trace=%v", p, view[p], view[p+size], ring[p], trace)
				}
			}
		}
		var lastClaim []byte
		lastOff := 0
		t.Repeat(map[string]func(*rapid.T){
			"claim": func(t *rapid.T) {
				n := nonneg(amount("n"))
				free := size - used
				c := b.Claim(n)
				want := n
				if want > free {
					want = free
				}
				trace = append(trace, fmt.Sprintf("Claim(%d)=%d", n, len(c)))
				if len(c) != want {
					t.Fatalf("Claim(%d) with free=%d returned %d bytes; trace=%v", n, free, len(c), trace)
				}
				lastClaim = nil
				if want == 0 {
					return
				}
				off := int(uintptr(unsafe.Pointer(&c[0])) - basePtr)
				wantOff := committedTotal % size
				if off != wantOff {
					t.Fatalf("claim starts at ring offset %d, consecutive layout requires %d (committed so far %d, size %d); trace=%v", off, wantOff, committedTotal, size, trace)
				}
				if off+len(c) > 2*size {
					t.Fatalf("claim [%d,%d) runs off the double mapping; trace=%v", off, off+len(c), trace)
				}
				for i := range c {
					tag++
					if tag == 0 {
						tag = 1
					}
					c[i] = tag
				}
				// bytes of a claim that crosses the end are the same memory as the ring start
				for i := range c {
					p := (off + i) % size
					if view[p] != c[i] || view[p+size] != c[i] {
						t.Fatalf("byte %d of the claim (ring position %d) is not mirrored: wrote %#x, ring start view has %#x, second half %#x; trace=%v", i, p, c[i], view[p], view[p+size], trace)
					}
				}
				if off+len(c) > size {
					crossed = true
				}
				lastClaim, lastOff = c, off
			},
			"commit": func(t *rapid.T) {
				n := nonneg(amount("n"))
				if lastClaim != nil && rapid.Bool().Draw(t, "exact") {
					n = rapid.IntRange(0, len(lastClaim)).Draw(t, "k")
				}
				free := size - used
				want := n
				if want > free {
					want = free
				}
				// the model learns what the committed positions hold from memory written through claims
				tail := committedTotal % size
				for i := 0; i < want; i++ {
					ring[(tail+i)%size] = view[(tail+i)%size]
				}
				got := b.Commit(n)
				trace = append(trace, fmt.Sprintf("Commit(%d)=%d", n, got))
				if got != want {
					t.Fatalf("Commit(%d) with free=%d returned %d; trace=%v", n, free, got, trace)
				}
				if (tail+want)/size > 0 && want > 0 {
					wrapped = true
				}
				used += want
				committedTotal += want
				lastClaim = nil
				_ = lastOff
			},
			"consume": func(t *rapid.T) {
				n := nonneg(amount("n"))
				want := n
				if want > used {
					want = used
				}
				got := b.Consume(n)
				trace = append(trace, fmt.Sprintf("Consume(%d)=%d", n, got))
				if got != want {
					t.Fatalf("Consume(%d) with used=%d returned %d; trace=%v", n, used, got, trace)
				}
				head = (head + want) % size
				used -= want
			},
			"reset": func(t *rapid.T) {
				if rapid.IntRange(0, 7).Draw(t, "really") != 0 {
					t.Skip()
				}
				b.Reset()
				trace = append(trace, "Reset")
				head, used, committedTotal = 0, 0, 0
				lastClaim = nil
			},
			"": func(t *rapid.T) { check() },
		})
		if err := b.Destroy(); err != nil {
			t.Fatalf("Destroy: %v", err)
		}
		destroyed = true
		if mapsMention(name) {
			t.Fatalf("mapping of %s still present after Destroy", name)
		}
		if _, err := os.Stat(name); err == nil {
			t.Fatalf("backing file %s left behind", name)
		}
		pow2 := size&(size-1) == 0
		var cls []string
		if !pow2 {
			cls = append(cls, "non-power-of-two")
		}
		if wrapped {
			cls = append(cls, "wrapped")
		}
		if crossed {
			cls = append(cls, "claim-crossed-end")
		}
		rec.Case(fmt.Sprintf("%d|%s", size, strings.Join(trace, ",")), !pow2 && wrapped, cls, map[string]any{"requested": req, "size": size, "ops": trace})
	})
}

// TestC11_DestroyTwice: a buffer that was destroyed owns nothing any more; destroying it again must leave a buffer created
// in the meantime (which the kernel usually places at the very same addresses) fully mapped and mirrored.
func TestC11_DestroyTwice(t *testing.T) {
	rec := evid.For("C11")
	page := syscall.Getpagesize()
	vt.Check(t, 60, func(t *rapid.T) {
		size := rapid.SampledFrom([]int{page, 2 * page, 3 * page, 8 * page, 1 << 20}).Draw(t, "size")
		a, err := sbytes.NewMirroredBuffer(size, false)
		if err != nil {
			t.Fatalf("NewMirroredBuffer: %v", err)
		}
		ca := a.Claim(1)
		addrA := uintptr(unsafe.Pointer(&ca[0]))
		if err := a.Destroy(); err != nil {
			t.Fatalf("Destroy: %v", err)
		}
		var others []*sbytes.MirroredBuffer
		for i, n := 0, rapid.IntRange(1, 3).Draw(t, "others"); i < n; i++ {
			b, err := sbytes.NewMirroredBuffer(size, rapid.Bool().Draw(t, "prefault"))
			if err != nil {
				t.Fatalf("NewMirroredBuffer: %v", err)
			}
			others = append(others, b)
		}
		defer func() {
			for _, b := range others {
				_ = b.Destroy()
			}
		}()
		sameRange := false
		for i, b := range others {
			c := b.Claim(b.Size())
			if uintptr(unsafe.Pointer(&c[0])) == addrA {
				sameRange = true
			}
			for k := range c {
				c[k] = byte(i*7 + k)
			}
			b.Commit(len(c))
		}
		for k := 0; k < rapid.IntRange(1, 2).Draw(t, "again"); k++ {
			_ = a.Destroy() // whatever it returns: it owns nothing
		}
		for i, b := range others {
			if !mapsMention(b.Name()) {
				t.Fatalf("after destroying an already destroyed buffer a second time, the mappings of another live buffer of the same size (%d bytes, same address range=%v) are gone from /proc/self/maps", size, sameRange)
			}
			// its committed bytes are intact and the mirror still works: consume half, claim across the end
			b.Consume(b.Size() / 2)
			c := b.Claim(b.Size() / 2)
			if len(c) != b.Size()/2 {
				t.Fatalf("live buffer %d: Claim(%d) returned %d bytes", i, b.Size()/2, len(c))
			}
			c[0] = 0xA5 // faults if the pages are gone
			if c[0] != 0xA5 {
				t.Fatalf("live buffer %d lost its memory", i)
			}
		}
		rec.Case(fmt.Sprintf("destroytwice|%d|%d|%v", size, len(others), sameRange), sameRange, []string{"destroy-twice-with-a-live-buffer-in-the-same-range"}, map[string]any{"size": size, "others": len(others), "same_address_range": sameRange})
	})
}
