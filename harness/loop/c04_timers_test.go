package loop

// C04 — timer guarantees: never early, at most once, never after cancel.

import (
	"fmt"
	"net"
	"os"
	"strings"
	"syscall"
	"testing"
	"time"

	"github.com/talostrading/sonic"
	"pgregory.net/rapid"
	"verif/internal/evid"
	"verif/internal/known"
	"verif/internal/vt"
)

const timerEpsilon = 50 * time.Microsecond

type tmState int

const (
	tmReady tmState = iota
	tmScheduled
	tmClosed
)

type timerModel struct {
	t        *sonic.Timer
	state    tmState
	schedID  int // live schedule (0 = none)
	repeat   bool
	delay    time.Duration
	issued   time.Time // schedule call (once) or last firing (repeating)
	deadline time.Time
	fires    int
	inCb     bool
}

// hop is one step of a handler program.
type hop struct {
	Kind   string // none cancel close once repeating immediate
	Target int    // timer index (-1 = self)
	Delay  int    // ms
}

func (h hop) String() string { return fmt.Sprintf("%s(t%d,%dms)", h.Kind, h.Target, h.Delay) }

type timerWorld struct {
	rt        *rapid.T
	ioc       *sonic.IO
	timers    []*timerModel
	nextSched int
	trace     []string
	// classes
	crossTouch, closeThen, cancelOwnRepeat, staleRearm bool
	problem                                            string
	lateFires                                          int // wind-down rounds that needed more than three polls
}

func (w *timerWorld) fail(f string, a ...any) {
	if w.problem == "" {
		w.problem = fmt.Sprintf(f, a...)
	}
}

func (w *timerWorld) log(f string, a ...any) { w.trace = append(w.trace, fmt.Sprintf(f, a...)) }

func (w *timerWorld) genProgram(lbl string, self int) []hop {
	n := rapid.SampledFrom([]int{0, 0, 1, 1, 2, 3}).Draw(w.rt, lbl+".nhops")
	var prog []hop
	for i := 0; i < n; i++ {
		h := hop{
			Kind:   rapid.SampledFrom([]string{"cancel", "rearm", "rearm", "close", "once", "once", "repeating", "immediate", "cancel+immediate", "cancel+immediate"}).Draw(w.rt, lbl+".kind"),
			Target: rapid.OneOf(rapid.IntRange(0, len(w.timers)-1), rapid.Just(self)).Draw(w.rt, lbl+".target"),
			Delay:  rapid.IntRange(1, 15).Draw(w.rt, lbl+".delay"),
		}
		prog = append(prog, h)
	}
	return prog
}

// schedule performs ScheduleOnce/ScheduleRepeating on timer i and checks the
// return value against the model.
func (w *timerWorld) schedule(i int, repeat bool, delayMs int, prog []hop, from string) {
	m := w.timers[i]
	d := time.Duration(delayMs) * time.Millisecond
	w.nextSched++
	id := w.nextSched
	cb := func() { w.onFire(i, id, prog) }
	issued := time.Now()
	var err error
	if repeat {
		err = m.t.ScheduleRepeating(d, cb)
	} else {
		err = m.t.ScheduleOnce(d, cb)
	}
	armed := time.Now() // the kernel timer was armed at some point between `issued` and now
	w.log("%s:t%d.Schedule%s(%dms)#%d=%v", from, i, map[bool]string{true: "Repeating", false: "Once"}[repeat], delayMs, id, err != nil)
	switch {
	case m.state == tmClosed:
		if err == nil {
			w.fail("t%d is closed but Schedule%v succeeded (a closed timer cannot be revived)", i, repeat)
			// keep the model in sync with what will happen so that further damage is still reported once
		}
	case m.state == tmScheduled && !m.inCb:
		if err == nil {
			w.fail("t%d already holds schedule #%d but a second schedule was accepted", i, m.schedID)
		}
	case m.state == tmScheduled && m.inCb:
		// own repeating callback running and still armed by the model: scheduling here is not generated
		if err == nil {
			w.fail("t%d: schedule accepted while its repeating schedule #%d is live", i, m.schedID)
		}
	default: // ready
		if delayMs <= 0 {
			if repeat {
				if err == nil {
					w.fail("ScheduleRepeating(%dms) accepted", delayMs)
				}
				return
			}
			// ran inline (onFire saw state ready and id not live: handled there through immediate flag)
			if err != nil {
				w.fail("t%d.ScheduleOnce(%d) failed: %v", i, delayMs, err)
			}
			return
		}
		if err != nil {
			w.fail("t%d is idle but Schedule failed: %v", i, err)
			return
		}
		m.state, m.schedID, m.repeat, m.delay, m.issued = tmScheduled, id, repeat, d, issued
		m.deadline = armed.Add(d) // used for liveness only; 'never early' is judged against `issued`
	}
}

var immediateRunning = map[int]bool{}

func (w *timerWorld) onFire(i, id int, prog []hop) {
	now := time.Now()
	m := w.timers[i]
	if immediateRunning[id] {
		w.log("fire:t%d#%d(immediate)", i, id)
		w.runProgram(i, prog)
		return
	}
	w.log("fire:t%d#%d", i, id)
	if m.state != tmScheduled || m.schedID != id {
		st := [...]string{"idle", "scheduled", "closed"}[m.state]
		w.fail("callback of schedule #%d of t%d ran although that schedule is not live (timer is %s, live schedule #%d): fired after cancel/close/replace", id, i, st, m.schedID)
		return
	}
	if el := now.Sub(m.issued); el < m.delay-timerEpsilon {
		w.fail("callback of schedule #%d of t%d ran %v after it was issued, requested delay %v: early", id, i, el, m.delay)
	}
	m.fires++
	if m.repeat {
		m.issued = now
		m.deadline = now.Add(m.delay)
		m.inCb = true
		w.runProgram(i, prog)
		m.inCb = false
	} else {
		m.state, m.schedID = tmReady, 0
		w.runProgram(i, prog)
	}
}

func (w *timerWorld) cancel(i int, from string) {
	m := w.timers[i]
	err := m.t.Cancel()
	w.log("%s:t%d.Cancel=%v", from, i, err != nil)
	switch m.state {
	case tmScheduled:
		if err != nil {
			w.fail("t%d.Cancel failed: %v", i, err)
			return
		}
		if m.inCb && m.repeat {
			w.cancelOwnRepeat = true
		}
		m.state, m.schedID = tmReady, 0
	case tmClosed:
		w.closeThen = true
	}
}

func (w *timerWorld) closeTimer(i int, from string) {
	m := w.timers[i]
	err := m.t.Close()
	w.log("%s:t%d.Close=%v", from, i, err != nil)
	if m.state != tmClosed && err != nil {
		w.fail("t%d.Close failed: %v", i, err)
		return
	}
	m.state, m.schedID = tmClosed, 0
}

func (w *timerWorld) runProgram(self int, prog []hop) {
	for _, h := range prog {
		tgt := h.Target
		if tgt < 0 {
			tgt = 0
			if self >= 0 {
				tgt = self
			}
		}
		if tgt >= len(w.timers) {
			tgt = len(w.timers) - 1
		}
		m := w.timers[tgt]
		from := fmt.Sprintf("h(t%d)", self)
		if tgt != self && (m.state == tmScheduled) {
			w.crossTouch = true
			if time.Now().After(m.deadline) && (h.Kind == "cancel" || h.Kind == "close" || h.Kind == "rearm") {
				w.staleRearm = true // an expired timer of the same batch is being disarmed
			}
		}
		switch h.Kind {
		case "cancel":
			w.cancel(tgt, from)
		case "cancel+immediate":
			w.cancel(tgt, from)
			w.runProgram(self, []hop{{Kind: "immediate", Target: tgt}})
		case "rearm":
			// cancel and immediately schedule again: the path "expired, then cancelled and re-armed before its batch entry is processed"
			if m.inCb && m.repeat && m.state == tmScheduled {
				w.cancel(tgt, from)
				w.schedule(tgt, false, h.Delay, nil, from)
				continue
			}
			w.cancel(tgt, from)
			w.schedule(tgt, false, h.Delay, nil, from)
		case "close":
			w.closeTimer(tgt, from)
		case "once", "repeating":
			if m.inCb && m.state == tmScheduled {
				continue // not generated: re-scheduling a repeating timer from its own callback without cancelling first
			}
			w.schedule(tgt, h.Kind == "repeating", h.Delay, nil, from)
		case "immediate":
			if m.state != tmReady {
				continue
			}
			w.nextSched++
			id := w.nextSched
			immediateRunning[id] = true
			ran := 0
			err := m.t.ScheduleOnce(0, func() { ran++ })
			delete(immediateRunning, id)
			w.log("%s:t%d.ScheduleOnce(0)=%v ran=%d", from, tgt, err != nil, ran)
			if err != nil || ran != 1 {
				w.fail("ScheduleOnce(0) on idle t%d: err=%v, callback ran %d times (want once, immediately)", tgt, err, ran)
			}
		}
	}
}

func (w *timerWorld) checkScheduled() {
	for i, m := range w.timers {
		if got, want := m.t.Scheduled(), m.state == tmScheduled; got != want {
			w.fail("t%d.Scheduled()=%v, model says %v", i, got, want)
		}
	}
}

func socketpairAdapter(ioc *sonic.IO) (*sonic.AsyncAdapter, int, func(), error) {
	fds, err := syscall.Socketpair(syscall.AF_UNIX, syscall.SOCK_STREAM, 0)
	if err != nil {
		return nil, -1, nil, err
	}
	f := os.NewFile(uintptr(fds[0]), "sp")
	c, err := net.FileConn(f)
	_ = f.Close()
	if err != nil {
		_ = syscall.Close(fds[1])
		return nil, -1, nil, err
	}
	var ad *sonic.AsyncAdapter
	var aerr error
	sonic.NewAsyncAdapter(ioc, c.(*net.UnixConn), c, func(err error, a *sonic.AsyncAdapter) { ad, aerr = a, err })
	if aerr != nil {
		_ = c.Close()
		_ = syscall.Close(fds[1])
		return nil, -1, nil, aerr
	}
	_ = syscall.SetNonblock(fds[1], true)
	cleanup := func() {
		_ = ad.Close()
		_ = c.Close()
		_ = syscall.Close(fds[1])
	}
	return ad, fds[1], cleanup, nil
}

func TestC04_Timers(t *testing.T) {
	rec := evid.For("C04")
	rec.SetRule("rapid state machine on one IO with 2..4 timers and one socket object: ScheduleOnce/ScheduleRepeating (delays <=0 and 1..15 ms), Cancel, Close, Scheduled, NewTimer (descriptor reuse), sleep, poll, peer write to the socket (an I/O entry in the same batch); every callback runs a generated handler program that cancels/closes/re-schedules itself or ANOTHER timer; oracle = per-timer model with schedule ids: callback only for the live schedule, elapsed >= delay - 50us (monotonic), once fires <=1, repeats >= interval apart and stop after cancel (also from inside), return values, closed timers stay dead, Scheduled()==model, a live repeating schedule fires once more before it is stopped, and liveness: after sleeping past every deadline +5 ms the loop is polled until every due callback ran (normally <=3 PollOne; a schedule still pending after 2 s of polling is reported as lost); non-trivial = a handler touched a different timer that was armed (cross-touch), or close->(cancel|schedule) on one timer, or a repeating timer cancelled from its own callback; distinct = hash of the trace")
	rec.Assume("a repeating timer is not re-scheduled from inside its own callback unless it was cancelled there first; real time: 1..15 ms delays, tolerance 50 us, liveness margin 5 ms")
	vt.CheckSteps(t, 300, 25, func(rt *rapid.T) {
		ioc, err := sonic.NewIO()
		if err != nil {
			rt.Fatalf("INFRA: NewIO: %v", err)
		}
		defer ioc.Close()
		w := &timerWorld{rt: rt, ioc: ioc}
		n := rapid.IntRange(2, 4).Draw(rt, "ntimers")
		for i := 0; i < n; i++ {
			tm, err := sonic.NewTimer(ioc)
			if err != nil {
				rt.Fatalf("INFRA: NewTimer: %v", err)
			}
			w.timers = append(w.timers, &timerModel{t: tm})
		}
		defer func() {
			for _, m := range w.timers {
				_ = m.t.Close()
			}
		}()
		ad, peerFd, cleanup, err := socketpairAdapter(ioc)
		if err != nil {
			rt.Fatalf("INFRA: socketpair: %v", err)
		}
		defer cleanup()
		adReading := false
		adBuf := make([]byte, 64)

		check := func() {
			if w.problem != "" {
				rt.Fatalf("%s; trace=%v", w.problem, w.trace)
			}
		}
		poll := func() {
			_, _ = ioc.PollOne()
		}
		rt.Repeat(map[string]func(*rapid.T){
			"once": func(rt *rapid.T) {
				i := rapid.IntRange(0, len(w.timers)-1).Draw(rt, "i")
				d := rapid.OneOf(rapid.IntRange(1, 15), rapid.IntRange(1, 4)).Draw(rt, "d")
				w.schedule(i, false, d, w.genProgram("p", i), "top")
			},
			"repeating": func(rt *rapid.T) {
				i := rapid.IntRange(0, len(w.timers)-1).Draw(rt, "i")
				d := rapid.OneOf(rapid.IntRange(1, 6), rapid.IntRange(-1, 0)).Draw(rt, "d")
				w.schedule(i, true, d, w.genProgram("p", i), "top")
			},
			"immediate": func(rt *rapid.T) {
				i := rapid.IntRange(0, len(w.timers)-1).Draw(rt, "i")
				w.runProgram(-1, []hop{{Kind: "immediate", Target: i}})
			},
			"cancel": func(rt *rapid.T) {
				w.cancel(rapid.IntRange(0, len(w.timers)-1).Draw(rt, "i"), "top")
			},
			"close": func(rt *rapid.T) {
				if rapid.IntRange(0, 2).Draw(rt, "really") != 0 {
					rt.Skip("close rarely")
				}
				w.closeTimer(rapid.IntRange(0, len(w.timers)-1).Draw(rt, "i"), "top")
			},
			"newTimer": func(rt *rapid.T) {
				if len(w.timers) >= 6 {
					rt.Skip("enough timers")
				}
				tm, err := sonic.NewTimer(ioc)
				if err != nil {
					rt.Fatalf("INFRA: NewTimer: %v", err)
				}
				w.timers = append(w.timers, &timerModel{t: tm})
				w.log("top:NewTimer=t%d", len(w.timers)-1)
			},
			"raceRearm": func(rt *rapid.T) {
				// two idle timers expire in the same poll cycle; the handler of the one that expires first cancels and
				// re-arms (or just cancels, or closes) the other one, whose batch entry is still to be processed
				var idle []int
				for i, m := range w.timers {
					if m.state == tmReady {
						idle = append(idle, i)
					}
				}
				if len(idle) < 2 {
					rt.Skip("fewer than two idle timers")
				}
				perm := rapid.Permutation(idle).Draw(rt, "pair")
				a, b := perm[0], perm[1]
				d := rapid.IntRange(1, 3).Draw(rt, "d")
				kind := rapid.SampledFrom([]string{"rearm", "rearm", "cancel", "close", "cancel+immediate"}).Draw(rt, "what")
				w.schedule(b, false, d, []hop{{Kind: kind, Target: a, Delay: rapid.IntRange(2, 12).Draw(rt, "newDelay")}}, "top")
				w.schedule(a, rapid.Bool().Draw(rt, "aRepeats"), d+1, w.genProgram("pa", a), "top")
				time.Sleep(time.Duration(d+3) * time.Millisecond)
				w.log("sleep(%d)", d+3)
				w.log("poll")
				poll()
			},
			"sleep": func(rt *rapid.T) {
				ms := rapid.IntRange(1, 12).Draw(rt, "ms")
				time.Sleep(time.Duration(ms) * time.Millisecond)
				w.log("sleep(%d)", ms)
			},
			"poll": func(rt *rapid.T) {
				w.log("poll")
				poll()
			},
			"sockRead": func(rt *rapid.T) {
				if adReading {
					rt.Skip("read already in flight")
				}
				adReading = true
				prog := w.genProgram("sp", -1)
				ad.AsyncRead(adBuf, func(err error, n int) {
					adReading = false
					w.log("fire:sock(%v,%d)", err != nil, n)
					w.runProgram(-1, prog)
				})
				w.log("top:sock.AsyncRead")
			},
			"sockPeerWrite": func(rt *rapid.T) {
				_, _ = syscall.Write(peerFd, []byte("x"))
				w.log("peer:write")
			},
			"": func(rt *rapid.T) {
				check()
				w.checkScheduled()
				check()
			},
		})
		check()
		// wind down: a repeating schedule that is still live must fire (again) - "runs its callback repeatedly ... until
		// cancelled" - then it is stopped from the top level; after that every once-schedule must fire
		for i, m := range w.timers {
			if !(m.state == tmScheduled && m.repeat) {
				continue
			}
			id, fires := m.schedID, m.fires
			if d := time.Until(m.deadline.Add(5 * time.Millisecond)); d > 0 {
				time.Sleep(d)
			}
			for began := time.Now(); m.state == tmScheduled && m.repeat && m.schedID == id && m.fires == fires; {
				poll()
				check()
				if time.Since(began) > 2*time.Second {
					rt.Fatalf("repeating schedule #%d of t%d (interval %v) has not run its callback although its next tick was due %v ago and the loop kept being polled; it ran %d times so far; trace=%v", id, i, m.delay, time.Since(m.deadline), fires, w.trace)
				}
				time.Sleep(time.Millisecond)
			}
			if m.state == tmScheduled && m.repeat {
				w.cancel(i, "end")
			}
		}
		var last time.Time
		for _, m := range w.timers {
			if m.state == tmScheduled && m.deadline.After(last) {
				last = m.deadline
			}
		}
		// handlers may schedule more: iterate a bounded number of rounds
		for round := 0; round < 8; round++ {
			due := false
			last = time.Time{}
			for i, m := range w.timers {
				if m.state == tmScheduled {
					if m.repeat {
						w.cancel(i, "end")
						continue
					}
					due = true
					if m.deadline.After(last) {
						last = m.deadline
					}
				}
			}
			if !due {
				break
			}
			if d := time.Until(last.Add(5 * time.Millisecond)); d > 0 {
				time.Sleep(d)
			}
			waiting := map[int]int{}
			for i, m := range w.timers {
				if m.state == tmScheduled && !m.repeat {
					waiting[i] = m.schedID
				}
			}
			// The property promises that a due callback runs "if the loop keeps being polled", not a latency: a loaded
			// machine may deliver the expiry late (or have descheduled this thread between the model's timestamp and
			// timerfd_settime). Three polls suffice normally; a schedule still pending after 2 s of polling is lost.
			pendingOf := func() (int, int) {
				for i, id := range waiting {
					if m := w.timers[i]; m.state == tmScheduled && m.schedID == id {
						return i, id
					}
				}
				return -1, 0
			}
			polls, began := 0, time.Now()
			for {
				for k := 0; k < 3; k++ {
					poll()
					polls++
				}
				check()
				i, id := pendingOf()
				if i < 0 {
					break
				}
				if time.Since(began) > 2*time.Second {
					m := w.timers[i]
					rt.Fatalf("schedule #%d of t%d (delay %v) did not fire although its deadline passed %v ago and the loop was polled %d times since; trace=%v", id, i, m.delay, time.Since(m.deadline), polls, w.trace)
				}
				w.lateFires++
				time.Sleep(2 * time.Millisecond)
			}
		}
		// nothing fires any more: cancelled, closed and fired schedules are dead
		time.Sleep(3 * time.Millisecond)
		for k := 0; k < 2; k++ {
			poll()
		}
		check()
		w.checkScheduled()
		check()
		var cls []string
		if w.lateFires > 0 {
			cls = append(cls, "late-expiry-needed-extra-polls")
		}
		if w.crossTouch {
			cls = append(cls, "handler-touched-other-armed-timer")
		}
		if w.staleRearm {
			cls = append(cls, "expired-timer-disarmed-by-other-handler")
		}
		if w.closeThen {
			cls = append(cls, "close-then-cancel")
		}
		if w.cancelOwnRepeat {
			cls = append(cls, "repeating-cancelled-from-own-callback")
		}
		rec.Case(strings.Join(w.trace, ","), w.crossTouch || w.closeThen || w.cancelOwnRepeat, cls, map[string]any{"trace": w.trace})
	})
}

var _ = known.Listed
