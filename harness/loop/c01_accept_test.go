package loop

// C01 for AsyncAccept woken for nothing: the connection the listener was woken for is taken by somebody else first (a
// handler dispatched earlier in the same poll batch calls the blocking Accept; with a listening socket shared between
// processes the same happens without any such call). The pending accept must then either complete once with an error or
// stay pending and complete with the next connection - never be dropped.

import (
	"fmt"
	"testing"
	"time"

	"github.com/talostrading/sonic"
	"github.com/talostrading/sonic/sonicopts"
	"pgregory.net/rapid"
	"verif/internal/evid"
	"verif/internal/sysx"
	"verif/internal/vt"
)

func TestC01_AcceptWokenForNothing(t *testing.T) {
	rec := evid.For("C01")
	rec.SetRule("accept woken for nothing: a listener with a deferred AsyncAccept (re-armed from its callback or not) and a posted handler that is dispatched first in the same poll batch and takes the connection with the blocking Accept; 1..3 further clients connect afterwards; every AsyncAccept issued completes exactly once (with an error when it was woken for nothing, or with a later connection), and as long as one is pending a new connection completes it within a bounded number of polls; non-trivial = the posted handler really took the connection")
	vt.Check(t, 60, func(rt *rapid.T) {
		ioc, err := sonic.NewIO()
		if err != nil {
			rt.Fatalf("INFRA: NewIO: %v", err)
		}
		defer ioc.Close()
		l, err := sonic.Listen(ioc, "tcp", "127.0.0.1:0", sonicopts.Nonblocking(true))
		if err != nil {
			rt.Fatalf("INFRA: listen: %v", err)
		}
		defer l.Close()
		_, port, _ := sysx.LocalAddr4(l.RawFd())
		rearm := rapid.Bool().Draw(rt, "rearmFromCallback")
		later := rapid.IntRange(1, 3).Draw(rt, "laterClients")
		var peers []int
		defer func() {
			for _, p := range peers {
				sysx.Reset(p)
			}
		}()
		connect := func() {
			p, err := sysx.ConnectTCP(port)
			if err != nil {
				rt.Fatalf("INFRA: connect: %v", err)
			}
			peers = append(peers, p)
		}
		issued, completed, accepted, failed := 0, 0, 0, 0
		pending := false
		var arm func()
		arm = func() {
			issued++
			pending = true
			l.AsyncAccept(func(err error, c sonic.Conn) {
				completed++
				pending = false
				if err != nil {
					failed++
				} else {
					accepted++
					_ = c.Close()
				}
				if rearm && issued < 12 {
					arm()
				}
			})
		}
		arm()
		if completed != 0 {
			rt.Fatalf("INFRA: AsyncAccept completed with nobody connecting")
		}
		stolen := false
		if err := ioc.Post(func() {
			if c, err := l.Accept(); err == nil {
				stolen = true
				_ = c.Close()
			}
		}); err != nil {
			rt.Fatalf("INFRA: Post: %v", err)
		}
		connect()
		sysx.WaitReadable(l.RawFd(), 1000)
		_, _ = ioc.PollOne()
		_, _ = ioc.PollOne()
		trace := fmt.Sprintf("rearm=%v stolen=%v after the first cycle: issued=%d completed=%d (accepted %d, failed %d)", rearm, stolen, issued, completed, accepted, failed)
		if completed > issued {
			rt.Fatalf("more completions than AsyncAccept calls; %s", trace)
		}
		for i := 0; i < later; i++ {
			if !pending {
				arm()
			}
			before := completed
			connect()
			sysx.WaitReadable(l.RawFd(), 1000)
			for k := 0; k < 20 && completed == before; k++ {
				_ = ioc.RunOneFor(5 * time.Millisecond)
			}
			if completed == before {
				rt.Fatalf("client #%d connected, an AsyncAccept is pending (issued %d, completed %d) and 20 poll cycles did not complete it: the accept that was woken for nothing was dropped; %s", i+2, issued, completed, trace)
			}
		}
		want := issued
		if pending {
			want--
		}
		if completed != want {
			rt.Fatalf("%d AsyncAccept calls, %d still pending, %d completions; %s", issued, issued-want, completed, trace)
		}
		rec.Case(fmt.Sprintf("acceptnothing|%v|%d|%v", rearm, later, stolen), stolen, []string{"accept-woken-for-nothing"}, map[string]any{"rearm": rearm, "later_clients": later, "connection_taken_by_posted_handler": stolen})
	})
}
