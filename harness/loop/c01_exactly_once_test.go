package loop

// C01 — exactly-once completion of every asynchronous operation.

import (
	"strings"
	"testing"

	"pgregory.net/rapid"
	"verif/internal/evid"
	"verif/internal/known"
	"verif/internal/vt"
)

var c01Kinds = []objKind{kTCPDial, kTCPAcc, kAdUnix, kAdTCP, kFifoR, kFifoW, kListener, kPacket}

func TestC01_ExactlyOnce(t *testing.T) {
	rec := evid.For("C01")
	rec.SetRule("rapid state machine over a world of 2..5 objects on one IO (sonic.Dial conn, accepted conn, AsyncAdapter over TCP and over a socketpair, FIFO read end, FIFO write end, listener, packet conn), each with a raw peer owned by the harness: start read/readAll/write/writeAll/accept/readFrom/writeTo from top level, from inside 32 nested inline completions (deferred path) or after filling the send buffer (would-block path); peer writes/drains/half-closes/closes/resets/hangs up/connects/sends (readiness settled with poll(2) on RawFd before polling, so the batch and its order are the harness's choice); Cancel/Close from top level; every completion runs a generated handler program (re-issue, start on another object, cancel/close/re-arm itself or another object); oracle: callback count per op in {0,1}; Cancel returns => every deferred op of that object completed once with ErrCancelled; after Close no callback; PollOne n>0 whenever a handler ran; final drain: every op still in flight is made completable, readiness confirmed, and must complete within a bounded number of PollOne calls; non-trivial = (>=2 handlers in one PollOne AND a handler touched another object or its own other direction) OR read+write in flight together on one object OR a peer fault while an op was deferred; distinct = hash of the trace")
	rec.Assume("at most one read and one write in flight per object; no operation is started on an object after its Close; handlers never call the synchronous Read/Write; non-empty buffers")
	hupKnown := known.Listed("C01", "hup-without-in-not-dispatched")
	vt.CheckSteps(t, 2500, 30, func(rt *rapid.T) {
		w := newWorld(rt)
		w.checkReady = true
		defer w.close()
		n := rapid.IntRange(2, 5).Draw(rt, "nobjs")
		for i := 0; i < n; i++ {
			w.addObject(rapid.SampledFrom(c01Kinds).Draw(rt, "kind"))
		}
		excluded := 0
		pickObj := func(lbl string) *wobj { return w.objs[rapid.IntRange(0, len(w.objs)-1).Draw(rt, lbl)] }
		sizes := rapid.SampledFrom([]int{1, 3, 64, 1000, 5000, 70000, 300000})
		start := func(rt *rapid.T, deep bool) {
			o := pickObj("o")
			ks := opKindsFor(o.kind)
			kind := ks[rapid.IntRange(0, len(ks)-1).Draw(rt, "kind")]
			size := sizes.Draw(rt, "size")
			if kind == "readFrom" || kind == "writeTo" {
				size = rapid.SampledFrom([]int{1, 10, 1000}).Draw(rt, "dsize")
			}
			if !w.canStart(o, kind) {
				rt.Skip("not startable")
			}
			prog := w.genHops("hp")
			if deep {
				w.atDepth(32, func() { w.startOp(o, kind, size, prog, "deep") })
			} else {
				w.startOp(o, kind, size, prog, "top")
			}
		}
		rt.Repeat(map[string]func(*rapid.T){
			"start":     func(rt *rapid.T) { start(rt, false) },
			"start2":    func(rt *rapid.T) { start(rt, false) },
			"startDeep": func(rt *rapid.T) { start(rt, true) },
			"fillSend": func(rt *rapid.T) {
				o := pickObj("o")
				if rapid.IntRange(0, 2).Draw(rt, "really") != 0 {
					rt.Skip("rarely")
				}
				w.fillSend(o)
			},
			"peerData": func(rt *rapid.T) {
				o := pickObj("o")
				switch {
				case o.kind == kListener:
					w.peerConnect(o)
				case o.kind == kPacket:
					w.peerSend(o, rapid.SampledFrom([]int{1, 10, 500}).Draw(rt, "k"))
				case o.canRead && rapid.Bool().Draw(rt, "w"):
					w.peerWrite(o, rapid.SampledFrom([]int{1, 5, 100, 3000, 70000}).Draw(rt, "k"))
				default:
					w.peerDrain(o, rapid.SampledFrom([]int{1, 100, 5000, 1 << 20}).Draw(rt, "k"))
				}
			},
			"peerFault": func(rt *rapid.T) {
				o := pickObj("o")
				if rapid.IntRange(0, 2).Draw(rt, "really") != 0 {
					rt.Skip("rarely")
				}
				how := rapid.SampledFrom([]string{"close", "reset", "shutwr"}).Draw(rt, "how")
				if hupKnown && (o.kind == kFifoR || o.kind == kFifoW) {
					excluded++
					rt.Skip("steering away from the recorded hang-up finding")
				}
				w.peerFault(o, how)
			},
			"cancel": func(rt *rapid.T) {
				o := pickObj("o")
				if o.st == nil || o.closed {
					rt.Skip("no Cancel")
				}
				w.cancelObj(o, "top")
			},
			"cancelDeep": func(rt *rapid.T) {
				// Cancel from a callback that sits on 32 nested inline completions (the dispatch limit), followed in the same
				// callback by what teardown and retry code does next: Close, or a new operation of the same kind
				o := pickObj("o")
				if o.st == nil || o.closed {
					rt.Skip("no Cancel")
				}
				then := rapid.SampledFrom([]string{"nothing", "close", "again"}).Draw(rt, "then")
				var again *wop
				for _, p := range []*wop{o.rd, o.wr} {
					if p != nil && p.deferred {
						again = p
					}
				}
				w.atDepth(32, func() {
					w.cancelObj(o, "deep")
					switch {
					case then == "close":
						w.closeObj(o, "deep")
					case then == "again" && again != nil && w.canStart(o, again.kind):
						w.startOp(o, again.kind, len(again.buf), nil, "deep")
					}
				})
			},
			"close": func(rt *rapid.T) {
				if rapid.IntRange(0, 3).Draw(rt, "really") != 0 {
					rt.Skip("rarely")
				}
				w.closeObj(pickObj("o"), "top")
			},
			"poll": func(rt *rapid.T) { w.pollOnce() },
			"burst": func(rt *rapid.T) {
				// make several objects with a deferred read ready in a generated order, then poll once: one batch
				var cands []*wobj
				for _, o := range w.objs {
					if !o.closed && o.rd != nil && o.rd.deferred {
						cands = append(cands, o)
					}
				}
				if len(cands) < 2 {
					rt.Skip("fewer than two deferred reads")
				}
				perm := rapid.Permutation(cands).Draw(rt, "order")
				for _, o := range perm {
					switch o.kind {
					case kListener:
						w.peerConnect(o)
					case kPacket:
						w.peerSend(o, 3)
					default:
						w.peerWrite(o, rapid.SampledFrom([]int{1, 50, 5000}).Draw(rt, "k"))
					}
				}
				w.pollOnce()
			},
			"": func(rt *rapid.T) { w.checkNow() },
		})
		w.checkNow()
		w.drain()
		w.checkNow()
		// nothing completes twice afterwards either
		w.pollOnce()
		w.checkNow()
		rec.ExcludedKnown(excluded)
		nt := (w.batchMulti && w.crossTouch) || w.bothDirs || w.faultWhileDeferred
		var cls []string
		if w.batchMulti && w.crossTouch {
			cls = append(cls, "multi-handler-batch+cross-touch")
		}
		if w.bothDirs {
			cls = append(cls, "read+write-in-flight")
		}
		if w.faultWhileDeferred {
			cls = append(cls, "peer-fault-while-deferred")
		}
		if w.deepIssue {
			cls = append(cls, "issued-at-dispatch-limit")
		}
		if w.wouldBlock {
			cls = append(cls, "would-block-deferred")
		}
		var kinds []string
		for _, o := range w.objs {
			kinds = append(kinds, string(o.kind))
		}
		rec.Case(strings.Join(kinds, "+")+"|"+strings.Join(w.trace, ","), nt, cls, map[string]any{"objects": kinds, "trace": w.trace})
	})
}
