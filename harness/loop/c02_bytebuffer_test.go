package loop

// C02 — the ByteBuffer transfer helpers over a stream connection (byte_buffer.go is one of the files the property is
// anchored in): ReadFrom / AsyncReadFrom / WriteTo / AsyncWriteTo move bytes between a ByteBuffer and a sonic conn; the
// counts they report must equal what moved into or out of the buffer, and the peer must see every byte once, in order.

import (
	"errors"
	"fmt"
	"io"
	"strings"
	"syscall"
	"testing"
	"time"

	"github.com/talostrading/sonic"
	"github.com/talostrading/sonic/sonicerrors"
	"pgregory.net/rapid"
	"verif/internal/evid"
	"verif/internal/sysx"
	"verif/internal/vt"
)

func TestC02_ByteBufferTransfers(t *testing.T) {
	rec := evid.For("C02")
	vt.CheckSteps(t, 300, 40, func(rt *rapid.T) {
		ioc, err := sonic.NewIO()
		if err != nil {
			rt.Fatalf("INFRA: NewIO: %v", err)
		}
		defer ioc.Close()
		ln, err := sysx.ListenTCP()
		if err != nil {
			rt.Fatalf("INFRA: listen: %v", err)
		}
		defer ln.Close()
		conn, err := sonic.Dial(ioc, "tcp", ln.Addr())
		if err != nil {
			rt.Fatalf("INFRA: dial: %v", err)
		}
		pfd, err := ln.Accept(2000)
		if err != nil {
			_ = conn.Close()
			rt.Fatalf("INFRA: accept: %v", err)
		}
		defer func() {
			_ = conn.Close()
			sysx.Reset(pfd)
		}()
		fd := conn.RawFd()
		bufSize := rapid.SampledFrom([]int{64 << 10, 256 << 10, 1 << 20}).Draw(rt, "sockbuf")
		sysx.SetBuf(fd, bufSize, bufSize)
		sysx.SetBuf(pfd, bufSize, bufSize)

		wb, rb := sonic.NewByteBuffer(), sonic.NewByteBuffer()
		var appended, reported, peerGot int64 // local -> peer stream: appended to wb, reported written, verified at the peer
		var peerSent, received int64          // peer -> local stream: written by the peer, verified in rb
		asyncW, asyncR := false, false
		partialWouldBlock, asyncFromPoller, asyncReadDeferred := 0, 0, 0
		var trace []string
		log := func(f string, a ...any) { trace = append(trace, fmt.Sprintf(f, a...)) }
		fail := func(f string, a ...any) {
			rt.Fatalf("%s; trace=%v", fmt.Sprintf(f, a...), trace)
		}
		peerDrain := func(max int) {
			data := sysx.ReadSome(pfd, max)
			for i, c := range data {
				if want := byteAt(0, 'w', peerGot+int64(i)); c != want {
					fail("peer received byte %#x at stream offset %d, the local side wrote %#x there (bytes lost, repeated or invented)", c, peerGot+int64(i), want)
				}
			}
			peerGot += int64(len(data))
			if peerGot > reported && !asyncW {
				fail("peer has received %d bytes but the writes reported only %d so far", peerGot, reported)
			}
			log("peerDrain=%d", len(data))
		}
		holdFrac, holdGrow, heldBack := 0, 0, 0
		// took verifies n fresh bytes at the end of rb's write area, commits and consumes them.
		took := func(n int, what string) {
			if n <= 0 || n > rb.WriteLen() {
				fail("%s reported n=%d but the buffer's write area holds %d new bytes", what, n, rb.WriteLen())
			}
			if rb.WriteLen() != n {
				fail("%s reported n=%d, write area grew to %d", what, n, rb.WriteLen())
			}
			if holdFrac > 0 && n >= 2 {
				// the caller commits the first part (a header, say), makes room for more - which reallocates the buffer
				// while the rest of what was received is still uncommitted - and commits the rest afterwards
				k := max(1, n*holdFrac/4)
				rb.Commit(k)
				rb.Reserve(rb.Cap() + holdGrow)
				if rb.WriteLen() != n-k {
					fail("%s: %d received bytes were uncommitted before Reserve, %d after", what, n-k, rb.WriteLen())
				}
				rb.Commit(n - k)
				log("heldBack(%d of %d, grow %d)", n-k, n, holdGrow)
				holdFrac = 0
				heldBack++
			} else {
				rb.Commit(n)
			}
			d := rb.Data()
			if len(d) != n {
				fail("%s: read area holds %d bytes after committing %d", what, len(d), n)
			}
			for i, c := range d {
				if want := byteAt(0, 'r', received+int64(i)); c != want {
					fail("%s delivered byte %#x at stream offset %d, the peer wrote %#x there", what, c, received+int64(i), want)
				}
			}
			received += int64(n)
			if received > peerSent {
				fail("%s: %d bytes received, the peer wrote only %d", what, received, peerSent)
			}
			rb.Consume(n)
		}
		writeTo := func() {
			before := wb.ReadLen()
			n64, err := wb.WriteTo(conn)
			n := int(n64)
			log("WriteTo(%d)=(%d,%v)", before, n, err)
			if n < 0 || n > before {
				fail("WriteTo reported %d bytes, the read area held %d", n, before)
			}
			if wb.ReadLen() != before-n {
				fail("WriteTo reported %d bytes written but the buffer's read area went from %d to %d: the count is not what left the buffer (those bytes would be sent again)", n, before, wb.ReadLen())
			}
			switch {
			case err == nil:
				if n != before {
					fail("WriteTo returned nil after %d of %d bytes", n, before)
				}
			case errors.Is(err, sonicerrors.ErrWouldBlock):
				if n > 0 {
					partialWouldBlock++
				}
			default:
				fail("WriteTo on a healthy connection: %v", err)
			}
			reported += int64(n)
		}
		rt.Repeat(map[string]func(*rapid.T){
			"append": func(rt *rapid.T) {
				// (also while an AsyncWriteTo is in flight: the operation holds the slice it was given, bytes queued behind
				// it wait for the next flush and must still be there when it completes)
				if asyncW && rapid.IntRange(0, 2).Draw(rt, "appendInFlight") != 0 {
					rt.Skip("not this time")
				}
				k := rapid.SampledFrom([]int{1, 7, 500, 4096, 70001, 300000, 1 << 20}).Draw(rt, "k")
				if wb.ReadLen()+k > 4<<20 {
					rt.Skip("enough queued")
				}
				b := make([]byte, k)
				fillStream(b, 0, 'w', appended)
				if n, err := wb.Write(b); n != k || err != nil {
					fail("ByteBuffer.Write(%d)=(%d,%v)", k, n, err)
				}
				wb.Commit(k)
				appended += int64(k)
				log("append(%d)", k)
			},
			"writeTo": func(rt *rapid.T) {
				if asyncW || wb.ReadLen() == 0 {
					rt.Skip("nothing to write")
				}
				writeTo()
			},
			"asyncWriteTo": func(rt *rapid.T) {
				if asyncW || wb.ReadLen() == 0 {
					rt.Skip("nothing to write")
				}
				before := wb.ReadLen()
				asyncW = true
				inCall := true
				log("AsyncWriteTo(%d)", before)
				wb.AsyncWriteTo(conn, func(err error, n int) {
					if !asyncW {
						fail("AsyncWriteTo callback invoked twice")
					}
					asyncW = false
					if !inCall {
						asyncFromPoller++
					}
					log("cb:AsyncWriteTo=(%v,%d)", err, n)
					if err != nil {
						fail("AsyncWriteTo on a healthy connection: %v (n=%d)", err, n)
					}
					reported += int64(n)
					if n != before || int64(wb.ReadLen()) != appended-reported {
						fail("AsyncWriteTo of %d bytes reported %d and left %d bytes in the read area, %d had been queued behind it while it was in flight", before, n, wb.ReadLen(), appended-reported)
					}
				})
				inCall = false
			},
			"peerDrain": func(rt *rapid.T) {
				peerDrain(rapid.SampledFrom([]int{1, 100, 5000, 65536, 1 << 20}).Draw(rt, "max"))
			},
			"peerWrite": func(rt *rapid.T) {
				k := rapid.SampledFrom([]int{1, 3, 100, 4096, 30000, 200000}).Draw(rt, "k")
				b := make([]byte, k)
				fillStream(b, 0, 'r', peerSent)
				n := sysx.WriteSome(pfd, b)
				peerSent += int64(n)
				log("peerWrite(%d)=%d", k, n)
			},
			"holdBack": func(rt *rapid.T) {
				// the next delivery is committed in two parts with a growing Reserve in between (added after seeded change C02-k)
				holdFrac = rapid.IntRange(1, 3).Draw(rt, "holdFrac")
				holdGrow = rapid.SampledFrom([]int{1, 513, 70001}).Draw(rt, "holdGrow")
			},
			"readFrom": func(rt *rapid.T) {
				if asyncR {
					rt.Skip("read in flight owns the buffer")
				}
				room := rapid.SampledFrom([]int{1, 2, 100, 4096, 70001}).Draw(rt, "room")
				rb.Reserve(room)
				avail := sysx.Unread(fd)
				n64, err := rb.ReadFrom(conn)
				n := int(n64)
				log("ReadFrom(room>=%d,avail=%d)=(%d,%v)", room, avail, n, err)
				switch {
				case err == nil:
					took(n, "ReadFrom")
				case errors.Is(err, sonicerrors.ErrWouldBlock):
					if n != 0 || rb.WriteLen() != 0 {
						fail("ReadFrom returned would-block with n=%d, write area %d", n, rb.WriteLen())
					}
					if avail > 0 {
						fail("ReadFrom returned would-block although %d bytes were readable", avail)
					}
				default:
					fail("ReadFrom on a healthy connection: %v", err)
				}
			},
			"asyncReadFrom": func(rt *rapid.T) {
				if asyncR {
					rt.Skip("read in flight")
				}
				room := rapid.SampledFrom([]int{1, 2, 100, 4096, 70001}).Draw(rt, "room")
				rb.Reserve(room)
				asyncR = true
				inCall := true
				log("AsyncReadFrom(room>=%d)", room)
				rb.AsyncReadFrom(conn, func(err error, n int) {
					if !asyncR {
						fail("AsyncReadFrom callback invoked twice")
					}
					asyncR = false
					if !inCall {
						asyncReadDeferred++
					}
					log("cb:AsyncReadFrom=(%v,%d)", err, n)
					if err != nil {
						fail("AsyncReadFrom on a healthy connection: %v", err)
					}
					took(n, "AsyncReadFrom")
				})
				inCall = false
			},
			"poll": func(rt *rapid.T) { _, _ = ioc.PollOne() },
			"":     func(rt *rapid.T) {},
		})
		// wind down: everything appended must reach the peer exactly once; everything the peer wrote must be readable
		// (progress is judged by the kernel's view: a write that stays parked although the socket is writable is lost;
		// a socket that stays unwritable although the peer drained is the kernel's business and only costs time)
		idleWritable := 0
		for began := time.Now(); wb.ReadLen() > 0 || asyncW || peerGot < appended; {
			if time.Since(began) > 60*time.Second {
				rt.Fatalf("INFRA: loopback TCP made no progress for 60 s (unsent=%d)", sysx.Unsent(fd))
			}
			got := peerGot
			peerDrain(1 << 20)
			if asyncW {
				writable := sysx.WaitWritable(fd, 20)
				_, _ = ioc.PollOne()
				if asyncW && writable && peerGot == got {
					if idleWritable++; idleWritable > 50 {
						fail("AsyncWriteTo stays in flight although the socket has been writable for 50 poll cycles (Pending()=%d)", ioc.Pending())
					}
				} else {
					idleWritable = 0
				}
				continue
			}
			if wb.ReadLen() > 0 {
				sysx.WaitWritable(fd, 20)
				writeTo()
				continue
			}
			sysx.WaitReadable(pfd, 20)
		}
		if asyncW || wb.ReadLen() != 0 {
			fail("write side did not finish: in flight=%v, %d bytes left in the buffer", asyncW, wb.ReadLen())
		}
		if peerGot != appended || reported != appended {
			fail("appended %d bytes, writes reported %d, peer received %d", appended, reported, peerGot)
		}
		if extra := sysx.ReadSome(pfd, 1<<20); len(extra) != 0 {
			fail("peer received %d bytes beyond the %d that were written", len(extra), appended)
		}
		// In a third of the cases the peer ends its stream right behind a last chunk, before the reader gets to it: the
		// reader keeps calling AsyncReadFrom until it is told the stream ended, and by then the buffer must have taken
		// everything the peer wrote.
		peerEnded := false
		if rapid.IntRange(0, 2).Draw(rt, "peerEndsStream") == 0 {
			k := rapid.SampledFrom([]int{1, 3, 100, 700, 4096, 30000}).Draw(rt, "tail")
			b := make([]byte, k)
			fillStream(b, 0, 'r', peerSent)
			n := sysx.WriteSome(pfd, b)
			peerSent += int64(n)
			_ = syscall.Shutdown(pfd, syscall.SHUT_WR)
			peerEnded = true
			log("peerWrite(%d)=%d+FIN", k, n)
			sysx.WaitReadable(fd, 1000)
			time.Sleep(time.Millisecond)
			ended := false
			for began := time.Now(); !ended; {
				if time.Since(began) > 20*time.Second {
					rt.Fatalf("INFRA: no end of stream 20 s after the peer shut down its side (unread=%d, received %d of %d)", sysx.Unread(fd), received, peerSent)
				}
				if !asyncR {
					rb.Reserve(rapid.SampledFrom([]int{100, 4096, 70001}).Draw(rt, "endRoom"))
					asyncR = true
					rb.AsyncReadFrom(conn, func(err error, n int) {
						asyncR = false
						log("cb:AsyncReadFrom=(%v,%d)", err, n)
						if err != nil {
							ended = true
							if err != io.EOF {
								fail("AsyncReadFrom at the end of the peer's stream: %v", err)
							}
							return
						}
						took(n, "AsyncReadFrom(end)")
					})
				}
				if asyncR {
					sysx.WaitReadable(fd, 20)
					_, _ = ioc.PollOne()
				}
			}
			if received != peerSent {
				fail("the reader was told the peer's stream ended after the buffer had taken %d of the %d bytes the peer wrote before it shut down its side", received, peerSent)
			}
		}
		for began := time.Now(); !peerEnded && (received < peerSent || asyncR); {
			if time.Since(began) > 60*time.Second {
				rt.Fatalf("INFRA: loopback TCP delivered nothing for 60 s (unread=%d)", sysx.Unread(fd))
			}
			if asyncR {
				if peerSent == received {
					break // nothing left for it: it stays parked and is dropped with the connection
				}
				sysx.WaitReadable(fd, 20)
				_, _ = ioc.PollOne()
				continue
			}
			sysx.WaitReadable(fd, 20)
			rb.Reserve(65536)
			n64, err := rb.ReadFrom(conn)
			if err == nil {
				took(int(n64), "ReadFrom(end)")
			} else if !errors.Is(err, sonicerrors.ErrWouldBlock) {
				fail("ReadFrom(end): %v", err)
			}
		}
		if received != peerSent {
			fail("peer wrote %d bytes, %d were read", peerSent, received)
		}
		var cls []string
		if partialWouldBlock > 0 {
			cls = append(cls, "bytebuffer-WriteTo-partial-then-would-block")
		}
		if asyncFromPoller > 0 {
			cls = append(cls, "bytebuffer-AsyncWriteTo-completed-from-poller")
		}
		if asyncReadDeferred > 0 {
			cls = append(cls, "bytebuffer-AsyncReadFrom-completed-from-poller")
		}
		if heldBack > 0 {
			cls = append(cls, "bytebuffer-commit-held-back-across-growing-Reserve")
		}
		rec.Case("bb:"+strings.Join(trace, ","), partialWouldBlock > 0 || asyncFromPoller > 0, cls,
			map[string]any{"ops": len(trace), "appended": appended, "peer_sent": peerSent, "sockbuf": bufSize, "partial_would_block": partialWouldBlock})
	})
}
