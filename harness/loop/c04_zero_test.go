package loop

// C04 for ScheduleOnce with a delay <= 0 issued from deep inside a chain of inline completions (up to the dispatch limit):
// the callback either runs before ScheduleOnce returns, or it is a schedule like any other - visible through Scheduled()
// and stopped by Cancel and Close.

import (
	"fmt"
	"testing"
	"time"

	"github.com/talostrading/sonic"
	"pgregory.net/rapid"
	"verif/internal/evid"
	"verif/internal/vt"
)

func TestC04_ZeroDelayDeepInAChain(t *testing.T) {
	rec := evid.For("C04")
	rec.SetRule("zero delay deep in a chain: ScheduleOnce(0 or a negative delay) is called from a callback sitting on 1..32 nested inline completions of another object, followed there by nothing, Cancel, Close or a second schedule; if the callback has not run when ScheduleOnce returns, Scheduled() must be true, a second schedule must be refused, and after a successful Cancel or Close it must never run; left alone it runs exactly once; non-trivial = issued at the dispatch limit")
	vt.Check(t, 80, func(rt *rapid.T) {
		w := newWorld(rt)
		defer w.close()
		w.quiesce = true
		tm, err := sonic.NewTimer(w.ioc)
		if err != nil {
			rt.Fatalf("INFRA: NewTimer: %v", err)
		}
		defer tm.Close()
		k := rapid.SampledFrom([]int{1, 2, 16, 31, 32, 32, 32}).Draw(rt, "depth")
		d := time.Duration(rapid.SampledFrom([]int{0, 0, -1, -1000000}).Draw(rt, "delayNs"))
		then := rapid.SampledFrom([]string{"nothing", "cancel", "close", "schedule-again"}).Draw(rt, "then")
		ran, ranAfterStop := 0, 0
		stopped, inline := false, false
		problem := ""
		w.atDepth(k, func() {
			if err := tm.ScheduleOnce(d, func() {
				ran++
				if stopped {
					ranAfterStop++
				}
			}); err != nil {
				problem = fmt.Sprintf("ScheduleOnce(%v) on an idle timer failed: %v", d, err)
				return
			}
			inline = ran == 1
			if inline {
				return
			}
			// not run yet: then it is a pending schedule
			if !tm.Scheduled() {
				problem = fmt.Sprintf("ScheduleOnce(%v) issued at depth %d returned without running the callback, and Scheduled() is false although the callback is still due", d, k)
				return
			}
			switch then {
			case "cancel":
				if err := tm.Cancel(); err != nil {
					problem = fmt.Sprintf("Cancel: %v", err)
				}
				stopped = true
			case "close":
				_ = tm.Close()
				stopped = true
			case "schedule-again":
				if err := tm.ScheduleOnce(time.Hour, func() {}); err == nil {
					problem = "a second schedule was accepted while the zero-delay callback is still due"
				}
			}
		})
		if problem != "" {
			rt.Fatalf("%s (then=%s)", problem, then)
		}
		for i := 0; i < 6; i++ {
			_ = w.ioc.RunOneFor(2 * time.Millisecond)
		}
		if ranAfterStop > 0 {
			rt.Fatalf("the callback of ScheduleOnce(%v) issued at depth %d ran %d time(s) after a successful %s", d, k, ranAfterStop, then)
		}
		if !stopped && ran != 1 {
			rt.Fatalf("the callback of ScheduleOnce(%v) issued at depth %d ran %d times (inline=%v, then=%s)", d, k, ran, inline, then)
		}
		rec.Case(fmt.Sprintf("zerodeep|%d|%v|%s", k, d, then), k == 32, []string{"zero-delay-deep-in-a-chain"}, map[string]any{"depth": k, "delay": d.String(), "then": then, "ran_inline": inline})
	})
}
