package loop

// C03, "PollOne ... reports a timeout, not success, when nothing was ready": after one of two operations in flight on an
// object has completed (or was cancelled), the direction it was waiting for is nobody's business any more - however
// ready the kernel says that direction is, a poll in which no handler runs is a timeout.

import (
	"errors"
	"fmt"
	"syscall"
	"testing"
	"time"

	"github.com/talostrading/sonic"
	"github.com/talostrading/sonic/sonicerrors"
	"pgregory.net/rapid"
	"verif/internal/evid"
	"verif/internal/sysx"
	"verif/internal/vt"
)

func TestC03_NothingReadyAfterOneOfTwoCompleted(t *testing.T) {
	rec := evid.For("C03")
	rec.SetRule("one of two: a connection with a read and a write deferred at the same time; the write completes (the peer drains) and is not started again while the read stays in flight with nothing to read; the socket stays writable and PollOne is called 3..6 times: no handler runs, so each call must report (0, timeout), RunOneFor must report a timeout too, and Pending() stays 1; non-trivial = the finished direction is ready while the loop is polled")
	vt.Check(t, 60, func(rt *rapid.T) {
		ioc, err := sonic.NewIO()
		if err != nil {
			rt.Fatalf("INFRA: NewIO: %v", err)
		}
		defer ioc.Close()
		ln, err := sysx.ListenTCP()
		if err != nil {
			rt.Fatalf("INFRA: listen: %v", err)
		}
		defer ln.Close()
		conn, err := sonic.Dial(ioc, "tcp", ln.Addr())
		if err != nil {
			rt.Fatalf("INFRA: dial: %v", err)
		}
		defer conn.Close()
		peer, err := ln.Accept(2000)
		if err != nil {
			rt.Fatalf("INFRA: accept: %v", err)
		}
		defer sysx.Reset(peer)
		fd := conn.RawFd()
		sysx.SetBuf(fd, 32768, 32768)
		sysx.SetBuf(peer, 32768, 32768)
		base := ioc.Pending()
		readCalls, writeCalls := 0, 0
		conn.AsyncRead(make([]byte, 16), func(error, int) { readCalls++ })
		junk := make([]byte, 1<<16)
		// fill the send path for good: until nothing more is taken in three rounds a few milliseconds apart
		for quiet := 0; quiet < 3; {
			took := 0
			for i := 0; i < 4096; i++ {
				n, err := syscall.Write(fd, junk)
				if err != nil || n <= 0 {
					break
				}
				took += n
			}
			if took == 0 {
				quiet++
			} else {
				quiet = 0
			}
			time.Sleep(2 * time.Millisecond)
		}
		conn.AsyncWrite(junk[:2000], func(error, int) { writeCalls++ })
		if readCalls != 0 || writeCalls != 0 {
			rt.Fatalf("INFRA: an operation completed at once (read %d, write %d)", readCalls, writeCalls)
		}
		which := "write-completes"
		handlers := 0
		switch which {
		case "write-completes", "write-cancelled-by-handler":
			// the peer drains: the write completes; the read stays in flight with nothing to read; the socket stays writable
			for began := time.Now(); writeCalls == 0; {
				sysx.ReadSome(peer, 1<<20)
				sysx.WaitWritable(fd, 20)
				_, _ = ioc.PollOne()
				if time.Since(began) > 5*time.Second {
					rt.Fatalf("INFRA: the deferred write never completed")
				}
			}
			sysx.ReadSome(peer, 1<<20)
			if r, _ := sysx.PollFd(fd, sysx.POLLOUT, 100); r == 0 {
				rt.Fatalf("INFRA: socket not writable after the peer drained")
			}
		default:
			// the peer sends: the read completes; the write stays in flight (the peer does not drain); more data arrives
			// afterwards that nobody is waiting for
			sysx.WriteSome(peer, []byte("0123456789abcdef"))
			for began := time.Now(); readCalls == 0; {
				sysx.WaitReadable(fd, 20)
				_, _ = ioc.PollOne()
				if time.Since(began) > 5*time.Second {
					rt.Fatalf("INFRA: the deferred read never completed")
				}
			}
			if writeCalls != 0 {
				rt.Fatalf("INFRA: the write completed although the peer does not drain")
			}
			sysx.WriteSome(peer, []byte("more"))
			sysx.WaitReadable(fd, 1000)
		}
		_ = handlers
		if p := ioc.Pending(); p != base+1 {
			rt.Fatalf("Pending()=%d with one operation in flight (idle value %d)", p, base)
		}
		polls := rapid.IntRange(3, 6).Draw(rt, "polls")
		for i := 0; i < polls; i++ {
			r0, w0 := readCalls, writeCalls
			n, err := ioc.PollOne()
			if readCalls != r0 || writeCalls != w0 {
				rt.Fatalf("INFRA: an operation completed during the quiet phase")
			}
			if n != 0 || !errors.Is(err, sonicerrors.ErrTimeout) {
				rt.Fatalf("%s: PollOne #%d returned (%d, %v) although no handler ran and the only operation in flight is not ready: want (0, timeout); the direction that is over is still reported by the poller", which, i, n, err)
			}
		}
		// (how long RunOneFor waits is not judged: a signal that interrupts the wait - the Go runtime sends them - ends it
		// early with the same timeout result, which is what the property asks for; returning success is the violation)
		t0 := time.Now()
		err = ioc.RunOneFor(20 * time.Millisecond)
		if !errors.Is(err, sonicerrors.ErrTimeout) {
			rt.Fatalf("%s: RunOneFor(20ms) returned %v after %v although no handler ran and nothing was ready: want a timeout", which, err, time.Since(t0))
		}
		rec.Case(fmt.Sprintf("oneoftwo|%s|%d", which, polls), true, []string{"nothing-ready-after-one-of-two-completed"}, map[string]any{"finished": which, "polls": polls})
	})
}
