package loop

// C04 with several event loops in one process, each on its own goroutine (io.go: "There might be multiple IOs in the same
// process, each within its own goroutine"): every loop arms and fires its own short timers at full speed while a far-away
// schedule sits on each loop. A timer belongs to the loop it was created on: its callback runs there, not before its delay,
// and nothing another loop does can make it run.

import (
	"fmt"
	"runtime"
	"sync"
	"sync/atomic"
	"testing"
	"time"

	"github.com/talostrading/sonic"
	"golang.org/x/sys/unix"
	"pgregory.net/rapid"
	"verif/internal/evid"
	"verif/internal/vt"
)

func TestC04_IndependentLoops(t *testing.T) {
	rec := evid.For("C04")
	rec.SetRule("independent loops: 2..4 IO loops, each on its own OS thread, each with a far-away ScheduleOnce (30 s) and 300..3000 rounds of ScheduleOnce(50..400 us) + RunOneFor until it fired, all loops running at the same time; every callback must run on the thread of its own loop, at least delay-50us after its scheduling call, exactly once, within 2 s; the far-away schedules must not run and must still be Scheduled() at the end; non-trivial = at least 2 loops x 1000 rounds")
	vt.Check(t, 12, func(rt *rapid.T) {
		nl := rapid.IntRange(2, 4).Draw(rt, "loops")
		rounds := rapid.SampledFrom([]int{300, 1000, 3000}).Draw(rt, "rounds")
		delays := make([]int, nl)
		for i := range delays {
			delays[i] = rapid.IntRange(50, 400).Draw(rt, "delayUs")
		}
		var wg sync.WaitGroup
		problems := make([]string, nl)
		var stop int32
		start := make(chan struct{})
		for li := 0; li < nl; li++ {
			wg.Add(1)
			go func(li int) {
				defer wg.Done()
				runtime.LockOSThread()
				defer runtime.UnlockOSThread()
				fail := func(f string, a ...any) {
					if problems[li] == "" {
						problems[li] = fmt.Sprintf("loop %d: ", li) + fmt.Sprintf(f, a...)
					}
					atomic.StoreInt32(&stop, 1)
				}
				tid := unix.Gettid()
				ioc, err := sonic.NewIO()
				if err != nil {
					fail("INFRA: NewIO: %v", err)
					return
				}
				defer ioc.Close()
				far, err := sonic.NewTimer(ioc)
				if err != nil {
					fail("INFRA: NewTimer: %v", err)
					return
				}
				defer far.Close()
				short, err := sonic.NewTimer(ioc)
				if err != nil {
					fail("INFRA: NewTimer: %v", err)
					return
				}
				defer short.Close()
				farIssued := time.Now()
				if err := far.ScheduleOnce(30*time.Second, func() {
					fail("the callback scheduled 30 s ahead ran after %v on thread %d (its loop runs on thread %d)", time.Since(farIssued), unix.Gettid(), tid)
				}); err != nil {
					fail("ScheduleOnce(30s) failed: %v", err)
					return
				}
				<-start
				d := time.Duration(delays[li]) * time.Microsecond
				for r := 0; r < rounds && atomic.LoadInt32(&stop) == 0; r++ {
					fires := 0
					issued := time.Now()
					if err := short.ScheduleOnce(d, func() {
						fires++
						if el := time.Since(issued); el < d-timerEpsilon {
							fail("round %d: callback ran %v after the scheduling call, requested %v", r, el, d)
						}
						if got := unix.Gettid(); got != tid {
							fail("round %d: callback ran on thread %d, its loop runs on thread %d", r, got, tid)
						}
					}); err != nil {
						fail("round %d: ScheduleOnce(%v) on an idle timer failed: %v", r, d, err)
						return
					}
					for fires == 0 && atomic.LoadInt32(&stop) == 0 {
						_ = ioc.RunOneFor(20 * time.Millisecond)
						if time.Since(issued) > 2*time.Second {
							fail("round %d: schedule of %v has not fired after %v of a blocked loop (Scheduled()=%v)", r, d, time.Since(issued), short.Scheduled())
							return
						}
					}
					if fires > 1 {
						fail("round %d: callback ran %d times", r, fires)
					}
				}
				if problems[li] == "" && !far.Scheduled() {
					fail("the 30 s schedule is no longer Scheduled() after %v", time.Since(farIssued))
				}
			}(li)
		}
		close(start)
		wg.Wait()
		for _, p := range problems {
			if p != "" {
				rt.Fatalf("%s (loops=%d rounds=%d delays=%vus)", p, nl, rounds, delays)
			}
		}
		rec.Case(fmt.Sprintf("loops|%d|%d|%v", nl, rounds, delays), rounds >= 1000, []string{"independent-loops"}, map[string]any{"loops": nl, "rounds": rounds, "delays_us": delays})
	})
}
