package loop

// C04, "scheduling while scheduled fails without disturbing the existing one", including the part of the existing
// schedule nobody sees: the loop's own reference to the timer. A fire-and-forget timer (the program keeps no reference;
// the callback closes the timer) must still fire after a refused second schedule and a garbage collection.

import (
	"fmt"
	"runtime"
	"strings"
	"sync/atomic"
	"syscall"
	"testing"
	"time"

	"github.com/talostrading/sonic"
	"pgregory.net/rapid"
	"verif/internal/evid"
	"verif/internal/sysx"
	"verif/internal/vt"
)

type c04Sentinel struct{ i int }

type c04Forgotten struct {
	fires     []int32
	finalized int32
	problem   string
}

// arm creates timer i, schedules it, optionally tries a second schedule (which must be refused), and forgets it.
//
//go:noinline
func (st *c04Forgotten) arm(ioc *sonic.IO, i int, d time.Duration, repeating bool, second string) {
	tm, err := sonic.NewTimer(ioc)
	if err != nil {
		st.problem = "INFRA: NewTimer: " + err.Error()
		return
	}
	s := &c04Sentinel{i}
	runtime.SetFinalizer(s, func(*c04Sentinel) { atomic.AddInt32(&st.finalized, 1) })
	cb := func() {
		atomic.AddInt32(&st.fires[i], 1)
		runtime.KeepAlive(s)
		_ = tm.Close() // fire-and-forget: the callback is the last user of the timer
	}
	if repeating {
		err = tm.ScheduleRepeating(d, cb)
	} else {
		err = tm.ScheduleOnce(d, cb)
	}
	if err != nil {
		st.problem = fmt.Sprintf("schedule of timer %d failed: %v", i, err)
		return
	}
	switch second {
	case "once":
		err = tm.ScheduleOnce(time.Hour, func() {})
	case "repeating":
		err = tm.ScheduleRepeating(time.Hour, func() {})
	default:
		return
	}
	if err == nil {
		st.problem = fmt.Sprintf("timer %d: a second schedule (%s) was accepted while the first is pending", i, second)
	}
	if !tm.Scheduled() {
		st.problem = fmt.Sprintf("timer %d: Scheduled() is false after a refused second schedule", i)
	}
}

func TestC04_RefusedScheduleKeepsTheTimerAlive(t *testing.T) {
	rec := evid.For("C04")
	rec.SetRule("forgotten timers: 1..8 timers are created, scheduled (once or repeating, 3..10 ms), in part given a second schedule that must be refused, and forgotten by the program (their callback closes them); three garbage collections later none of them may have been collected, and each fires exactly once within 2 s of a polled loop; non-trivial = a refused second schedule")
	vt.Check(t, 40, func(rt *rapid.T) {
		ioc, err := sonic.NewIO()
		if err != nil {
			rt.Fatalf("INFRA: NewIO: %v", err)
		}
		defer ioc.Close()
		// timers whose callback never ran (a failing case, replayed many times while rapid shrinks it) are released by
		// descriptor number: the harness holds no reference to them on purpose
		before := sysx.FdCensus()
		defer func() {
			for fd, target := range sysx.FdCensus() {
				if _, was := before[fd]; !was && strings.Contains(target, "timerfd") {
					_ = syscall.Close(fd)
				}
			}
		}()
		n := rapid.IntRange(1, 8).Draw(rt, "timers")
		st := &c04Forgotten{fires: make([]int32, n)}
		var desc []string
		refused := 0
		for i := 0; i < n; i++ {
			d := time.Duration(rapid.IntRange(3, 10).Draw(rt, "ms")) * time.Millisecond
			rep := rapid.Bool().Draw(rt, "repeating")
			second := rapid.SampledFrom([]string{"none", "once", "repeating"}).Draw(rt, "second")
			if second != "none" {
				refused++
			}
			st.arm(ioc, i, d, rep, second)
			desc = append(desc, fmt.Sprintf("%v/rep=%v/second=%s", d, rep, second))
			if st.problem != "" {
				rt.Fatalf("%s; timers=%v", st.problem, desc)
			}
		}
		for i := 0; i < 3; i++ {
			runtime.GC()
			time.Sleep(200 * time.Microsecond)
		}
		pendingNow := 0
		for i := range st.fires {
			if atomic.LoadInt32(&st.fires[i]) == 0 {
				pendingNow++
			}
		}
		if f := int(atomic.LoadInt32(&st.finalized)); f > n-pendingNow {
			rt.Fatalf("%d of %d scheduled timers nobody but the loop refers to were garbage collected while their callbacks are due (%d had fired); timers=%v", f-(n-pendingNow), n, n-pendingNow, desc)
		}
		began := time.Now()
		for {
			all := true
			for i := range st.fires {
				if atomic.LoadInt32(&st.fires[i]) == 0 {
					all = false
				}
			}
			if all {
				break
			}
			if time.Since(began) > 2*time.Second {
				rt.Fatalf("after 2 s of polling %v have fired; Pending()=%d; timers=%v", st.fires, ioc.Pending(), desc)
			}
			_ = ioc.RunOneFor(5 * time.Millisecond)
		}
		for i := 0; i < 3; i++ {
			_ = ioc.RunOneFor(2 * time.Millisecond)
		}
		for i := range st.fires {
			if c := atomic.LoadInt32(&st.fires[i]); c != 1 {
				rt.Fatalf("timer %d (closed by its own callback) fired %d times; timers=%v", i, c, desc)
			}
		}
		rec.Case(fmt.Sprintf("forgotten|%v", desc), refused > 0, []string{"forgotten-timers"}, map[string]any{"timers": desc, "refused_second_schedules": refused})
	})
}
