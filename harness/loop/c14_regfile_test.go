package loop

// C14 on descriptors the poller refuses (regular files, /dev/zero): the nesting bound holds there too. A chain of
// operations on such a descriptor, each issued from the completion callback of the previous one, is followed with the
// harness's own nesting counter. What the 33rd operation does on the unchanged tree is the recorded finding
// "regular-file-deferred" (it fails with EPERM); the chain stops at the first error, so that finding is not what is being
// judged here: whatever the library does at the limit, callbacks must not nest deeper than the limit plus one.

import (
	"fmt"
	"os"
	"path/filepath"
	"strings"
	"testing"

	"github.com/talostrading/sonic"
	"pgregory.net/rapid"
	"verif/internal/evid"
	"verif/internal/known"
	"verif/internal/vt"
)

func TestC14_RefusedDescriptorChainDepth(t *testing.T) {
	rec := evid.For("C14")
	rec.SetRule("refused-descriptor chains: 34..300 reads or writes (plain or All) on a regular file or /dev/zero opened with sonic.Open, each issued from the previous completion callback; the chain stops at the first error (EPERM at the limit is the recorded finding regular-file-deferred, counted as excluded); the harness's own nesting counter must never exceed MaxCallbackDispatch+1 and IO.Dispatched must be 0 after the unwind; non-trivial = the chain reached the dispatch limit")
	regKnown := known.Listed("C14", "regular-file-deferred")
	dir := t.TempDir()
	vt.Check(t, 60, func(rt *rapid.T) {
		ioc, err := sonic.NewIO()
		if err != nil {
			rt.Fatalf("INFRA: NewIO: %v", err)
		}
		defer ioc.Close()
		target := rapid.SampledFrom([]string{"regular-file", "regular-file", "/dev/zero"}).Draw(rt, "target")
		path := target
		if target == "regular-file" {
			path = filepath.Join(dir, "chain.dat")
			if err := os.WriteFile(path, make([]byte, 4096), 0o600); err != nil {
				rt.Fatalf("INFRA: %v", err)
			}
		}
		f, err := sonic.Open(ioc, path, os.O_RDWR, 0)
		if err != nil {
			rt.Fatalf("INFRA: Open(%s): %v", path, err)
		}
		defer f.Close()
		L := rapid.IntRange(34, 300).Draw(rt, "len")
		kinds := rapid.SliceOfN(rapid.SampledFrom([]string{"read", "readAll", "write", "writeAll"}), 1, 4).Draw(rt, "kinds")
		depth, maxDepth, done := 0, 0, 0
		var firstErr error
		buf := make([]byte, 8)
		var issue func(i int)
		issue = func(i int) {
			if i >= L {
				return
			}
			cb := func(err error, n int) {
				depth++
				if depth > maxDepth {
					maxDepth = depth
				}
				done++
				if err != nil {
					if firstErr == nil {
						firstErr = err
					}
				} else if maxDepth <= 2*sonic.MaxCallbackDispatch+2 { // (no point in nesting any deeper once the bound is broken)
					issue(i + 1)
				}
				depth--
			}
			switch kinds[i%len(kinds)] {
			case "read":
				f.AsyncRead(buf, cb)
			case "readAll":
				f.AsyncReadAll(buf, cb)
			case "write":
				f.AsyncWrite(buf, cb)
			default:
				f.AsyncWriteAll(buf, cb)
			}
		}
		issue(0)
		for i := 0; i < 2*L && firstErr == nil && done < L && maxDepth <= sonic.MaxCallbackDispatch+1; i++ {
			if ioc.Pending() == 0 {
				break
			}
			_, _ = ioc.PollOne()
		}
		if maxDepth > sonic.MaxCallbackDispatch+1 {
			rt.Fatalf("completion callbacks nested %d deep on a chain of %v operations on %s (limit %d plus the one the poller dispatches); %d operations completed, IO.Dispatched=%d afterwards", maxDepth, kinds, target, sonic.MaxCallbackDispatch, done, ioc.Dispatched)
		}
		if ioc.Dispatched != 0 {
			rt.Fatalf("IO.Dispatched=%d after the chain on %s unwound (%d operations, first error %v)", ioc.Dispatched, target, done, firstErr)
		}
		excluded := false
		if firstErr != nil {
			if regKnown && done == sonic.MaxCallbackDispatch+1 && strings.Contains(firstErr.Error(), "operation not permitted") {
				excluded = true // the recorded finding, probed by TestC14_ProbeRegularFileDeferred
				rec.ExcludedKnown(1)
			} else {
				rt.Fatalf("operation #%d of a chain on %s failed with %v", done, target, firstErr)
			}
		} else if done != L {
			rt.Fatalf("chain on %s stopped after %d of %d operations with no error and nothing in flight", target, done, L)
		}
		rec.Case(fmt.Sprintf("refused|%s|%d|%v", target, L, kinds), maxDepth >= sonic.MaxCallbackDispatch, []string{"refused-descriptor-chain"}, map[string]any{"target": target, "len": L, "kinds": kinds, "max_depth": maxDepth, "stopped_by_recorded_finding": excluded})
	})
}
