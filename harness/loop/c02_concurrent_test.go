package loop

// C02 - AsyncReadAll / AsyncWriteAll while the peer is active on another thread: the transfer is split into many short
// reads that succeed one after the other without ever hitting would-block (the peer keeps delivering small segments), on a
// default non-blocking conn and on one dialled with Nonblocking(false). Success may only be reported for the whole buffer.

import (
	"fmt"
	"syscall"
	"testing"
	"time"

	"github.com/talostrading/sonic"
	"github.com/talostrading/sonic/sonicopts"
	"pgregory.net/rapid"
	"verif/internal/evid"
	"verif/internal/sysx"
	"verif/internal/vt"
)

func TestC02_ReadAllWhilePeerKeepsWriting(t *testing.T) {
	rec := evid.For("C02")
	vt.Check(t, 40, func(rt *rapid.T) {
		ioc, err := sonic.NewIO()
		if err != nil {
			rt.Fatalf("INFRA: NewIO: %v", err)
		}
		defer ioc.Close()
		ln, err := sysx.ListenTCP()
		if err != nil {
			rt.Fatalf("INFRA: listen: %v", err)
		}
		defer ln.Close()
		blocking := rapid.IntRange(0, 2).Draw(rt, "blockingConn") == 0
		var opts []sonicopts.Option
		if blocking {
			opts = append(opts, sonicopts.Nonblocking(false))
		}
		conn, err := sonic.Dial(ioc, "tcp", ln.Addr(), opts...)
		if err != nil {
			rt.Fatalf("INFRA: dial: %v", err)
		}
		pfd, err := ln.Accept(2000)
		if err != nil {
			_ = conn.Close()
			rt.Fatalf("INFRA: accept: %v", err)
		}
		defer func() {
			_ = conn.Close()
			sysx.Reset(pfd)
		}()
		_ = syscall.SetsockoptInt(pfd, syscall.IPPROTO_TCP, syscall.TCP_NODELAY, 1)
		_ = syscall.SetNonblock(pfd, false)
		total := rapid.SampledFrom([]int{40, 80, 300, 5000, 100000}).Draw(rt, "total")
		seg := rapid.SampledFrom([]int{1, 2, 3, 7}).Draw(rt, "segment")
		pauseUs := rapid.SampledFrom([]int{0, 0, 20, 200}).Draw(rt, "pauseUs")
		if blocking && total > 5000 {
			total = 5000
		}
		if pauseUs > 0 && total/seg > 300 {
			total = 300 * seg // a sleep of a few microseconds takes a millisecond or more on a busy machine
		}
		go func() { // the peer: small segments, one after the other
			b := make([]byte, total)
			fillStream(b, 7, 'r', 0)
			for off := 0; off < total; off += seg {
				end := off + seg
				if end > total {
					end = total
				}
				if _, err := syscall.Write(pfd, b[off:end]); err != nil {
					return
				}
				if pauseUs > 0 {
					time.Sleep(time.Duration(pauseUs) * time.Microsecond)
				}
			}
		}()
		buf := make([]byte, total)
		calls, gotN := 0, 0
		var gotErr error
		conn.AsyncReadAll(buf, func(err error, n int) { calls++; gotErr, gotN = err, n })
		deadline := time.Now().Add(20 * time.Second)
		for calls == 0 {
			_ = ioc.RunOneFor(5 * time.Millisecond)
			if time.Now().After(deadline) {
				rt.Fatalf("INFRA: AsyncReadAll of %d bytes not completed after 20 s", total)
			}
		}
		desc := fmt.Sprintf("total=%d segment=%d pause=%dus blocking=%v", total, seg, pauseUs, blocking)
		if calls != 1 {
			rt.Fatalf("AsyncReadAll callback ran %d times; %s", calls, desc)
		}
		if gotErr != nil {
			rt.Fatalf("AsyncReadAll on a healthy connection: %v (n=%d); %s", gotErr, gotN, desc)
		}
		if gotN != total {
			rt.Fatalf("AsyncReadAll reported success with n=%d for a buffer of %d bytes; %s", gotN, total, desc)
		}
		for i, c := range buf {
			if want := byteAt(7, 'r', int64(i)); c != want {
				rt.Fatalf("byte %d of the buffer is %#x, the peer wrote %#x; %s", i, c, want, desc)
			}
		}
		rec.Case("concurrent|"+desc, total/seg > 16, []string{"readall-while-peer-keeps-writing"}, map[string]any{"case": desc})
	})
}
