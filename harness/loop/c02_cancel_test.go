package loop

// C02, "the count passed to a completion callback equals the number of bytes that operation actually moved", for an
// AsyncReadAll / AsyncWriteAll that is cancelled after it has moved part of its buffer: a caller that resumes from the
// reported count must neither lose nor repeat bytes.

import (
	"bytes"
	"errors"
	"fmt"
	"syscall"
	"testing"
	"time"

	"github.com/talostrading/sonic"
	"github.com/talostrading/sonic/sonicerrors"
	"pgregory.net/rapid"
	"verif/internal/evid"
	"verif/internal/sysx"
	"verif/internal/vt"
)

func TestC02_CancelledAllReportsItsProgress(t *testing.T) {
	rec := evid.For("C02")
	rec.SetRule("cancelled *All operations: (read) AsyncReadAll of N bytes, the peer writes k<N of them, the loop runs until the socket is drained into the buffer, Cancel: the callback reports a cancellation error and n==k with the peer's bytes in buf[:k], and a following AsyncReadAll of N-k bytes completes with the rest of the stream; (write) AsyncWriteAll larger than the socket buffers, the peer drains part, Cancel: the reported count equals the number of bytes the peer receives in total afterwards; non-trivial = the operation had moved at least one byte when it was cancelled")
	vt.Check(t, 60, func(rt *rapid.T) {
		ioc, err := sonic.NewIO()
		if err != nil {
			rt.Fatalf("INFRA: NewIO: %v", err)
		}
		defer ioc.Close()
		ln, err := sysx.ListenTCP()
		if err != nil {
			rt.Fatalf("INFRA: listen: %v", err)
		}
		defer ln.Close()
		conn, err := sonic.Dial(ioc, "tcp", ln.Addr())
		if err != nil {
			rt.Fatalf("INFRA: dial: %v", err)
		}
		defer conn.Close()
		peer, err := ln.Accept(2000)
		if err != nil {
			rt.Fatalf("INFRA: accept: %v", err)
		}
		defer sysx.Reset(peer)
		fd := conn.RawFd()
		if rapid.Bool().Draw(rt, "readSide") {
			N := rapid.IntRange(2, 5000).Draw(rt, "N")
			k := rapid.IntRange(0, N-1).Draw(rt, "k")
			stream := make([]byte, N)
			fillStream(stream, 0, 'r', 0)
			buf := make([]byte, N)
			calls, gotN := 0, -1
			var gotErr error
			conn.AsyncReadAll(buf, func(err error, n int) { calls++; gotErr, gotN = err, n })
			if k > 0 {
				if w := sysx.WriteSome(peer, stream[:k]); w != k {
					rt.Fatalf("INFRA: peer wrote %d of %d", w, k)
				}
				for began := time.Now(); ; {
					sysx.WaitReadable(fd, 20)
					_, _ = ioc.PollOne()
					if calls != 0 {
						rt.Fatalf("AsyncReadAll of %d bytes completed (%v, n=%d) when %d bytes had arrived", N, gotErr, gotN, k)
					}
					if sysx.Unread(fd) == 0 {
						break
					}
					if time.Since(began) > 5*time.Second {
						rt.Fatalf("INFRA: the pending AsyncReadAll does not take the %d bytes that arrived", k)
					}
				}
			}
			conn.Cancel()
			if calls != 1 || !errors.Is(gotErr, sonicerrors.ErrCancelled) {
				rt.Fatalf("Cancel: the pending AsyncReadAll completed %d times with %v", calls, gotErr)
			}
			if gotN != k {
				rt.Fatalf("AsyncReadAll of %d bytes had moved %d bytes into the caller's buffer when it was cancelled (the socket is drained) and its callback reports n=%d", N, k, gotN)
			}
			if !bytes.Equal(buf[:k], stream[:k]) {
				rt.Fatalf("the first %d bytes of the cancelled read's buffer are not the peer's bytes", k)
			}
			// the caller resumes from the reported count
			rest := make([]byte, N-k)
			calls2 := 0
			conn.AsyncReadAll(rest, func(err error, n int) {
				calls2++
				if err != nil || n != N-k {
					rt.Fatalf("the resumed AsyncReadAll of %d bytes completed with (%v, %d)", N-k, err, n)
				}
			})
			sysx.WriteSome(peer, stream[k:])
			for began := time.Now(); calls2 == 0; {
				sysx.WaitReadable(fd, 20)
				_, _ = ioc.PollOne()
				if time.Since(began) > 5*time.Second {
					rt.Fatalf("the resumed AsyncReadAll never completed")
				}
			}
			if !bytes.Equal(rest, stream[k:]) {
				rt.Fatalf("after resuming from the reported count the stream is damaged: bytes lost or repeated around offset %d", k)
			}
			rec.Case(fmt.Sprintf("cancelall|read|%d|%d", N, k), k > 0, []string{"cancelled-readAll"}, map[string]any{"side": "read", "N": N, "moved_before_cancel": k})
			return
		}
		// write side
		sysx.SetBuf(fd, 32768, 0)
		sysx.SetBuf(peer, 0, 32768)
		N := rapid.SampledFrom([]int{400000, 1000000, 3000000}).Draw(rt, "N")
		data := make([]byte, N)
		fillStream(data, 0, 'w', 0)
		calls, gotN := 0, -1
		var gotErr error
		conn.AsyncWriteAll(data, func(err error, n int) { calls++; gotErr, gotN = err, n })
		if calls != 0 {
			rt.Fatalf("INFRA: AsyncWriteAll of %d bytes completed at once (%v, %d)", N, gotErr, gotN)
		}
		var received []byte
		drains := rapid.IntRange(0, 6).Draw(rt, "drainsBeforeCancel")
		for i := 0; i < drains && calls == 0; i++ {
			received = append(received, sysx.ReadSome(peer, rapid.SampledFrom([]int{1000, 20000, 100000}).Draw(rt, "drain"))...)
			sysx.WaitWritable(fd, 20)
			_, _ = ioc.PollOne()
		}
		if calls != 0 {
			rt.Skip("the write finished before it could be cancelled")
		}
		conn.Cancel()
		if calls != 1 || !errors.Is(gotErr, sonicerrors.ErrCancelled) {
			rt.Fatalf("Cancel: the pending AsyncWriteAll completed %d times with %v", calls, gotErr)
		}
		// everything that left the writer reaches the peer: drain until nothing is unsent and nothing arrives any more
		for began := time.Now(); ; {
			b := sysx.ReadSome(peer, 1<<20)
			received = append(received, b...)
			if len(b) == 0 && sysx.Unsent(fd) == 0 && !sysx.WaitReadable(peer, 20) {
				break
			}
			if time.Since(began) > 10*time.Second {
				rt.Fatalf("INFRA: the peer keeps receiving after 10 s")
			}
		}
		if gotN != len(received) {
			rt.Fatalf("AsyncWriteAll of %d bytes was cancelled after the peer had been handed %d bytes in total, and its callback reports n=%d: a caller resuming from that count repeats or skips %d bytes", N, len(received), gotN, len(received)-gotN)
		}
		if !bytes.Equal(received, data[:len(received)]) {
			rt.Fatalf("the peer received something else than the first %d bytes of the buffer", len(received))
		}
		_ = syscall.EAGAIN
		rec.Case(fmt.Sprintf("cancelall|write|%d|%d", N, len(received)), len(received) > 0, []string{"cancelled-writeAll"}, map[string]any{"side": "write", "N": N, "moved_before_cancel": len(received)})
	})
}
