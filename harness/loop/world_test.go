package loop

// Shared world for C01 (exactly-once), C02 (stream fidelity), C03 (ledger) and
// C14 (nesting bound): one sonic.IO, a generated set of objects with raw peers
// owned by the harness, operations with ids, completion records and generated
// handler programs.

import (
	"errors"
	"fmt"
	"io"
	"net"
	"net/netip"
	"os"
	"path/filepath"
	"strings"
	"syscall"
	"time"

	"github.com/talostrading/sonic"
	"github.com/talostrading/sonic/multicast"
	"github.com/talostrading/sonic/sonicerrors"
	"github.com/talostrading/sonic/sonicopts"
	"pgregory.net/rapid"
	"verif/internal/sysx"
)

type objKind string

const (
	kTCPDial  objKind = "tcpDial"
	kTCPAcc   objKind = "tcpAccepted"
	kAdUnix   objKind = "adapterUnix"
	kAdTCP    objKind = "adapterTCP"
	kFifoR    objKind = "fifoRead"
	kFifoW    objKind = "fifoWrite"
	kRegFile  objKind = "regularFile"
	kListener objKind = "listener"
	kPacket   objKind = "packetConn"
	kMcast    objKind = "multicastPeer"
)

func (k objKind) stream() bool {
	switch k {
	case kTCPDial, kTCPAcc, kAdUnix, kAdTCP, kFifoR, kFifoW, kRegFile:
		return true
	}
	return false
}

func (k objKind) tcp() bool { return k == kTCPDial || k == kTCPAcc || k == kAdTCP }

type whop struct {
	Kind   string // none reissue start cancel close timer post
	Target int    // object index, -1 = self
	Op     string
	Size   int
}

func (h whop) String() string { return fmt.Sprintf("%s(o%d,%s,%d)", h.Kind, h.Target, h.Op, h.Size) }

type wop struct {
	id       int
	o        *wobj
	kind     string // read readAll write writeAll accept readFrom writeTo
	buf      []byte
	startOff int64
	calls    int
	err      error
	n        int
	phase    string // inline poll cancel
	deferred bool
	dropped  bool // object closed while the op was in flight
	prog     []whop
	addr     net.Addr
	conn     sonic.Conn
	depthAt  int // ioc.Dispatched at issue time
	dstFd    int // writeTo: the harness socket the datagram is addressed to
}

func (p *wop) inflight() bool { return p.calls == 0 && !p.dropped }

type wobj struct {
	id            int
	kind          objKind
	w             *world
	st            sonic.FileDescriptor
	netc          net.Conn
	ln            sonic.Listener
	pc            sonic.PacketConn
	mp            *multicast.UDPPeer
	rawFd         int
	peer          int
	peerGone      string // "", "closed", "reset", "shutwr"
	closed        bool
	rd, wr        *wop
	canRead       bool
	canWrite      bool
	rdOff         int64 // bytes delivered by completed reads
	wrOff         int64 // bytes reported by completed writes
	peerWrote     int64
	peerRead      int64
	contentOK     bool
	wrErrored     bool
	clients       []int
	accepted      []sonic.Conn
	path          string
	peerUDP       *net.UDPAddr
	peer2         int // datagram objects: a second receiver on another port (write destinations vary)
	peer2UDP      *net.UDPAddr
	dgramsSent    [][]byte // datagrams the peer sent, not yet read
	twoInFlight   bool
	broken        bool // descriptor replaced underneath (C03): epoll_ctl fails for it
	deadlineArmed bool // a write deadline is set on the adapter's net.Conn: a big write returns (n>0, timeout) instead of blocking
}

func (o *wobj) name() string { return fmt.Sprintf("o%d:%s", o.id, o.kind) }

type world struct {
	rt      *rapid.T
	ioc     *sonic.IO
	objs    []*wobj
	ops     []*wop
	trace   []string
	problem string
	infra   string
	dir     string

	depth, maxDepth int
	inPoll          bool
	cancelSet       map[*wop]bool
	handlersInPoll  int
	checkReady      bool // pollOnce requires deferred single-transfer operations on ready descriptors to complete
	quiesce         bool

	deepPC   sonic.PacketConn
	sinkFd   int
	sinkAddr *net.UDPAddr
	rawLn    *sysx.RawTCPListener

	checkContent    bool
	writeAfterError bool // error chains keep writing on a connection whose writes fail
	// ledger extras (C03)
	timers       []*wtimer
	postsPending int

	// classes
	batchMulti, crossTouch, bothDirs, faultWhileDeferred, deepIssue, wouldBlock bool
	multiSegment                                                                bool
	cleanup                                                                     []func()
	postHook                                                                    func(from string)
	onComplete                                                                  func(p *wop)
	linkHook                                                                    func(p *wop) // called with the new op before it is issued
}

type wtimer struct {
	t      *sonic.Timer
	armed  bool
	closed bool
	id     int
}

func (w *world) log(f string, a ...any) { w.trace = append(w.trace, fmt.Sprintf(f, a...)) }
func (w *world) fail(f string, a ...any) {
	if w.problem == "" {
		w.problem = fmt.Sprintf(f, a...)
	}
}
func (w *world) infraf(f string, a ...any) {
	if w.infra == "" {
		w.infra = fmt.Sprintf(f, a...)
	}
}

// byteAt is the position-dependent content of stream (obj, dir) at offset off.
func byteAt(obj int, dir byte, off int64) byte {
	x := uint64(off)*0x9E3779B97F4A7C15 + uint64(obj)*0xBF58476D1CE4E5B9 + uint64(dir)*0x94D049BB133111EB
	x ^= x >> 29
	x *= 0xD6E8FEB86659FD93
	x ^= x >> 32
	return byte(x)
}

func fillStream(b []byte, obj int, dir byte, off int64) {
	for i := range b {
		b[i] = byteAt(obj, dir, off+int64(i))
	}
}

func newWorld(rt *rapid.T) *world {
	ioc, err := sonic.NewIO()
	if err != nil {
		rt.Fatalf("INFRA: NewIO: %v", err)
	}
	w := &world{rt: rt, ioc: ioc}
	w.cleanup = append(w.cleanup, func() { _ = ioc.Close() })
	dir, err := os.MkdirTemp("", "verif-loop-")
	if err != nil {
		rt.Fatalf("INFRA: tempdir: %v", err)
	}
	w.dir = dir
	w.cleanup = append(w.cleanup, func() { _ = os.RemoveAll(dir) })
	// helper for atDepth: a packet conn that always completes inline, and a sink nobody reads
	pc, err := sonic.NewPacketConn(ioc, "udp", "127.0.0.1:0")
	if err != nil {
		rt.Fatalf("INFRA: NewPacketConn: %v", err)
	}
	w.deepPC = pc
	w.cleanup = append(w.cleanup, func() { _ = pc.Close() })
	sfd, err := syscall.Socket(syscall.AF_INET, syscall.SOCK_DGRAM|syscall.SOCK_NONBLOCK|syscall.SOCK_CLOEXEC, 0)
	if err != nil {
		rt.Fatalf("INFRA: socket: %v", err)
	}
	_ = syscall.Bind(sfd, &syscall.SockaddrInet4{Addr: [4]byte{127, 0, 0, 1}})
	_, port, _ := sysx.LocalAddr4(sfd)
	w.sinkFd = sfd
	w.sinkAddr = &net.UDPAddr{IP: net.IPv4(127, 0, 0, 1).To4(), Port: port}
	w.cleanup = append(w.cleanup, func() { _ = syscall.Close(sfd) })
	ln, err := sysx.ListenTCP()
	if err != nil {
		rt.Fatalf("INFRA: listen: %v", err)
	}
	w.rawLn = ln
	w.cleanup = append(w.cleanup, ln.Close)
	return w
}

func (w *world) close() {
	for _, o := range w.objs {
		w.destroy(o)
	}
	for i := len(w.cleanup) - 1; i >= 0; i-- {
		w.cleanup[i]()
	}
}

func (w *world) destroy(o *wobj) {
	if !o.closed {
		w.closeObj(o, "end")
	}
	if o.peer >= 0 && o.peerGone != "closed" && o.peerGone != "reset" {
		if o.kind.tcp() {
			sysx.Reset(o.peer) // no TIME_WAIT: thousands of cases per minute would exhaust the ephemeral ports
		} else {
			_ = syscall.Close(o.peer)
		}
		o.peer = -1
	}
	for _, c := range o.clients {
		sysx.Reset(c)
	}
	o.clients = nil
	for _, c := range o.accepted {
		_ = c.Close()
	}
	o.accepted = nil
}

// addObject builds one object of the given kind with its raw peer.
func (w *world) addObject(kind objKind) *wobj {
	o := &wobj{id: len(w.objs), kind: kind, w: w, peer: -1, contentOK: true, rawFd: -1}
	switch kind {
	case kTCPDial:
		c, err := sonic.Dial(w.ioc, "tcp", w.rawLn.Addr())
		if err != nil {
			w.rt.Fatalf("INFRA: Dial: %v", err)
		}
		p, err := w.rawLn.Accept(2000)
		if err != nil {
			w.rt.Fatalf("INFRA: raw accept: %v", err)
		}
		o.st, o.peer, o.canRead, o.canWrite = c, p, true, true
	case kTCPAcc:
		ln, err := sonic.Listen(w.ioc, "tcp", "127.0.0.1:0", sonicopts.Nonblocking(true))
		if err != nil {
			w.rt.Fatalf("INFRA: Listen: %v", err)
		}
		_, port, _ := sysx.LocalAddr4(ln.RawFd())
		p, err := sysx.ConnectTCP(port)
		if err != nil {
			w.rt.Fatalf("INFRA: raw connect: %v", err)
		}
		if !sysx.WaitReadable(ln.RawFd(), 2000) {
			w.rt.Fatalf("INFRA: listener never readable")
		}
		c, err := ln.Accept()
		if err != nil {
			w.rt.Fatalf("INFRA: Accept: %v", err)
		}
		_ = ln.Close()
		o.st, o.peer, o.canRead, o.canWrite = c, p, true, true
	case kAdUnix:
		fds, err := syscall.Socketpair(syscall.AF_UNIX, syscall.SOCK_STREAM|syscall.SOCK_CLOEXEC, 0)
		if err != nil {
			w.rt.Fatalf("INFRA: socketpair: %v", err)
		}
		f := os.NewFile(uintptr(fds[0]), "sp")
		c, err := net.FileConn(f)
		_ = f.Close()
		if err != nil {
			w.rt.Fatalf("INFRA: FileConn: %v", err)
		}
		_ = syscall.SetNonblock(fds[1], true)
		o.netc, o.peer = c, fds[1]
		sonic.NewAsyncAdapter(w.ioc, c.(*net.UnixConn), c, func(err error, a *sonic.AsyncAdapter) {
			if err != nil {
				w.rt.Fatalf("INFRA: NewAsyncAdapter: %v", err)
			}
			o.st = a
		})
		o.canRead, o.canWrite = true, true
	case kAdTCP:
		c, err := net.Dial("tcp", w.rawLn.Addr())
		if err != nil {
			w.rt.Fatalf("INFRA: net.Dial: %v", err)
		}
		p, err := w.rawLn.Accept(2000)
		if err != nil {
			w.rt.Fatalf("INFRA: raw accept: %v", err)
		}
		o.netc, o.peer = c, p
		sonic.NewAsyncAdapter(w.ioc, c.(*net.TCPConn), c, func(err error, a *sonic.AsyncAdapter) {
			if err != nil {
				w.rt.Fatalf("INFRA: NewAsyncAdapter: %v", err)
			}
			o.st = a
		})
		o.canRead, o.canWrite = true, true
	case kFifoR, kFifoW:
		o.path = filepath.Join(w.dir, fmt.Sprintf("fifo%d", o.id))
		if err := syscall.Mkfifo(o.path, 0o600); err != nil {
			w.rt.Fatalf("INFRA: mkfifo: %v", err)
		}
		if kind == kFifoR {
			f, err := sonic.Open(w.ioc, o.path, syscall.O_RDONLY|syscall.O_NONBLOCK, 0)
			if err != nil {
				w.rt.Fatalf("INFRA: Open fifo: %v", err)
			}
			p, err := syscall.Open(o.path, syscall.O_WRONLY|syscall.O_NONBLOCK|syscall.O_CLOEXEC, 0)
			if err != nil {
				w.rt.Fatalf("INFRA: open fifo writer: %v", err)
			}
			o.st, o.peer, o.canRead = f, p, true
		} else {
			p, err := syscall.Open(o.path, syscall.O_RDONLY|syscall.O_NONBLOCK|syscall.O_CLOEXEC, 0)
			if err != nil {
				w.rt.Fatalf("INFRA: open fifo reader: %v", err)
			}
			f, err := sonic.Open(w.ioc, o.path, syscall.O_WRONLY|syscall.O_NONBLOCK, 0)
			if err != nil {
				w.rt.Fatalf("INFRA: Open fifo: %v", err)
			}
			o.st, o.peer, o.canWrite = f, p, true
		}
	case kRegFile:
		o.path = filepath.Join(w.dir, fmt.Sprintf("reg%d", o.id))
		content := make([]byte, 1<<16)
		fillStream(content, o.id, 'r', 0)
		if err := os.WriteFile(o.path, content, 0o600); err != nil {
			w.rt.Fatalf("INFRA: write file: %v", err)
		}
		f, err := sonic.Open(w.ioc, o.path, syscall.O_RDWR, 0)
		if err != nil {
			w.rt.Fatalf("INFRA: Open file: %v", err)
		}
		o.st, o.canRead = f, true
		o.peerWrote = 1 << 16
	case kListener:
		ln, err := sonic.Listen(w.ioc, "tcp", "127.0.0.1:0", sonicopts.Nonblocking(true))
		if err != nil {
			w.rt.Fatalf("INFRA: Listen: %v", err)
		}
		o.ln, o.canRead = ln, true
	case kPacket:
		pc, err := sonic.NewPacketConn(w.ioc, "udp", "127.0.0.1:0")
		if err != nil {
			w.rt.Fatalf("INFRA: NewPacketConn: %v", err)
		}
		p, err := syscall.Socket(syscall.AF_INET, syscall.SOCK_DGRAM|syscall.SOCK_NONBLOCK|syscall.SOCK_CLOEXEC, 0)
		if err != nil {
			w.rt.Fatalf("INFRA: socket: %v", err)
		}
		_ = syscall.Bind(p, &syscall.SockaddrInet4{Addr: [4]byte{127, 0, 0, 1}})
		_, port, _ := sysx.LocalAddr4(p)
		o.pc, o.peer, o.canRead, o.canWrite = pc, p, true, true
		o.peerUDP = &net.UDPAddr{IP: net.IPv4(127, 0, 0, 1).To4(), Port: port}
		w.secondReceiver(o)
	}
	if kind == kMcast {
		// (a UDPPeer sets SO_REUSEPORT: a port picked by the kernel could be shared with a peer of another test process)
		claimed, release, err := sysx.ClaimUDPPort()
		if err != nil {
			w.rt.Fatalf("INFRA: %v", err)
		}
		w.cleanup = append(w.cleanup, release)
		mp, err := multicast.NewUDPPeer(w.ioc, "udp", fmt.Sprintf("127.0.0.1:%d", claimed))
		if err != nil {
			w.rt.Fatalf("INFRA: NewUDPPeer: %v", err)
		}
		p, err := syscall.Socket(syscall.AF_INET, syscall.SOCK_DGRAM|syscall.SOCK_NONBLOCK|syscall.SOCK_CLOEXEC, 0)
		if err != nil {
			w.rt.Fatalf("INFRA: socket: %v", err)
		}
		_ = syscall.Bind(p, &syscall.SockaddrInet4{Addr: [4]byte{127, 0, 0, 1}})
		_, port, _ := sysx.LocalAddr4(p)
		o.mp, o.peer, o.canRead, o.canWrite = mp, p, true, true
		o.peerUDP = &net.UDPAddr{IP: net.IPv4(127, 0, 0, 1).To4(), Port: port}
		w.secondReceiver(o)
		o.rawFd = mp.NextLayer().RawFd()
	}
	switch {
	case o.st != nil:
		o.rawFd = o.st.RawFd()
	case o.ln != nil:
		o.rawFd = o.ln.RawFd()
	case o.pc != nil:
		o.rawFd = o.pc.RawFd()
	}
	w.objs = append(w.objs, o)
	return o
}

// secondReceiver gives a datagram object a second harness socket to write to.
func (w *world) secondReceiver(o *wobj) {
	p, err := syscall.Socket(syscall.AF_INET, syscall.SOCK_DGRAM|syscall.SOCK_NONBLOCK|syscall.SOCK_CLOEXEC, 0)
	if err != nil {
		w.rt.Fatalf("INFRA: socket: %v", err)
	}
	_ = syscall.Bind(p, &syscall.SockaddrInet4{Addr: [4]byte{127, 0, 0, 1}})
	_, port, _ := sysx.LocalAddr4(p)
	o.peer2, o.peer2UDP = p, &net.UDPAddr{IP: net.IPv4(127, 0, 0, 1).To4(), Port: port}
	w.cleanup = append(w.cleanup, func() { _ = syscall.Close(p) })
}

// ---------------------------------------------------------------------------
// operations

func (w *world) newOp(o *wobj, kind string, size int, prog []whop) *wop {
	p := &wop{id: len(w.ops), o: o, kind: kind, prog: prog, depthAt: w.ioc.Dispatched}
	if size > 0 {
		p.buf = make([]byte, size)
	}
	w.ops = append(w.ops, p)
	return p
}

func (w *world) canStart(o *wobj, kind string) bool {
	if o.closed {
		return false
	}
	if o.broken && w.ioc.Dispatched < sonic.MaxCallbackDispatch {
		return false // only the registration path is exercised on a replaced descriptor
	}
	switch kind {
	case "read", "readAll":
		return o.kind.stream() && o.canRead && o.rd == nil
	case "write", "writeAll":
		return o.kind.stream() && o.canWrite && o.wr == nil && (!o.wrErrored || w.writeAfterError)
	case "accept":
		return o.kind == kListener && o.rd == nil
	case "readFrom":
		return (o.kind == kPacket || o.kind == kMcast) && o.rd == nil
	case "writeTo":
		return (o.kind == kPacket || o.kind == kMcast) && o.wr == nil
	}
	return false
}

func opKindsFor(k objKind) []string {
	switch k {
	case kListener:
		return []string{"accept"}
	case kPacket, kMcast:
		return []string{"readFrom", "writeTo"}
	case kFifoR, kRegFile:
		return []string{"read", "readAll"}
	case kFifoW:
		return []string{"write", "writeAll"}
	}
	return []string{"read", "readAll", "write", "writeAll"}
}

// startOp issues one operation. Returns the op or nil if not startable.
func (w *world) startOp(o *wobj, kind string, size int, prog []whop, from string) *wop {
	if !w.canStart(o, kind) {
		return nil
	}
	if (o.kind == kAdUnix || o.kind == kAdTCP) && (kind == "write" || kind == "writeAll") && !o.deadlineArmed {
		// an AsyncAdapter writes through net.Conn.Write, which blocks the calling goroutine until everything is
		// written: the harness is that goroutine, so the write must fit into the socket buffer
		if size > 8192 {
			size = 8192
		}
		if !o.contentOK || o.wrOff-o.peerRead+int64(size) > 65536 {
			return nil
		}
	}
	p := w.newOp(o, kind, size, prog)
	if w.linkHook != nil {
		h := w.linkHook
		w.linkHook = nil
		h(p)
	}
	isRead := kind == "read" || kind == "readAll" || kind == "accept" || kind == "readFrom"
	if isRead {
		o.rd = p
	} else {
		o.wr = p
	}
	if o.rd != nil && o.wr != nil {
		w.bothDirs = true
		o.twoInFlight = true
	}
	if p.depthAt >= sonic.MaxCallbackDispatch {
		w.deepIssue = true
	}
	w.log("%s:%s.%s(%d)#%d", from, o.name(), kind, size, p.id)
	switch kind {
	case "read":
		o.st.AsyncRead(p.buf, func(err error, n int) { w.complete(p, err, n) })
	case "readAll":
		o.st.AsyncReadAll(p.buf, func(err error, n int) { w.complete(p, err, n) })
	case "write", "writeAll":
		p.startOff = o.wrOff
		fillStream(p.buf, o.id, 'w', o.wrOff)
		if kind == "write" {
			o.st.AsyncWrite(p.buf, func(err error, n int) { w.complete(p, err, n) })
		} else {
			o.st.AsyncWriteAll(p.buf, func(err error, n int) { w.complete(p, err, n) })
		}
	case "accept":
		o.ln.AsyncAccept(func(err error, c sonic.Conn) {
			p.conn = c
			if c != nil {
				o.accepted = append(o.accepted, c)
			}
			w.complete(p, err, 0)
		})
	case "readFrom":
		if o.mp != nil {
			o.mp.AsyncRead(p.buf, func(err error, n int, ap netip.AddrPort) {
				if ap.IsValid() {
					p.addr = net.UDPAddrFromAddrPort(ap)
				}
				w.complete(p, err, n)
			})
			break
		}
		rcb := func(err error, n int, addr net.Addr) {
			p.addr = addr
			w.complete(p, err, n)
		}
		if p.id%3 == 1 {
			o.pc.AsyncReadAllFrom(p.buf, rcb) // on a datagram socket: completes with the next datagram like AsyncReadFrom
		} else {
			o.pc.AsyncReadFrom(p.buf, rcb)
		}
	case "writeTo":
		for i := range p.buf {
			p.buf[i] = byte(p.id + i)
		}
		// the destination varies from write to write (a deterministic function of the operation id)
		dst := o.peerUDP
		p.dstFd = o.peer
		if o.peer2UDP != nil && (uint32(p.id)*2654435761>>9)&1 == 1 {
			dst, p.dstFd = o.peer2UDP, o.peer2
		}
		if o.mp != nil {
			o.mp.AsyncWrite(p.buf, dst.AddrPort(), func(err error, n int) { w.complete(p, err, n) })
			break
		}
		o.pc.AsyncWriteTo(p.buf, dst, func(err error) { w.complete(p, err, len(p.buf)) })
	}
	if p.calls == 0 {
		p.deferred = true
		if p.depthAt < sonic.MaxCallbackDispatch {
			w.wouldBlock = true
		}
	}
	return p
}

// complete is the body of every user callback.
func (w *world) complete(p *wop, err error, n int) {
	p.calls++
	w.depth++
	if w.depth > w.maxDepth {
		w.maxDepth = w.depth
	}
	defer func() { w.depth-- }()
	byCancel := w.cancelSet[p]
	switch {
	case byCancel:
		p.phase = "cancel"
	case w.inPoll:
		p.phase = "poll"
		w.handlersInPoll++
	default:
		p.phase = "inline"
	}
	w.log("done#%d(%s,%v,%d)", p.id, p.phase, errShort(err), n)
	if p.calls > 1 {
		w.fail("completion callback of op #%d (%s on %s) invoked %d times", p.id, p.kind, p.o.name(), p.calls)
		return
	}
	if p.dropped {
		w.fail("completion callback of op #%d (%s on %s) invoked after Close of the object returned", p.id, p.kind, p.o.name())
		return
	}
	p.err, p.n = err, n
	o := p.o
	if o.rd == p {
		o.rd = nil
	}
	if o.wr == p {
		o.wr = nil
	}
	if byCancel && !errors.Is(err, sonicerrors.ErrCancelled) {
		w.fail("Cancel completed op #%d (%s on %s) with %v, want a cancellation error", p.id, p.kind, o.name(), err)
	}
	w.account(p, err, n)
	if w.onComplete != nil {
		w.onComplete(p)
	}
	if !w.quiesce {
		w.runHops(p)
	}
}

func errShort(err error) string {
	if err == nil {
		return "ok"
	}
	s := err.Error()
	if len(s) > 24 {
		s = s[:24]
	}
	return strings.ReplaceAll(s, " ", "_")
}

// account keeps the stream offsets and, when enabled, checks the C02 contract.
func (w *world) account(p *wop, err error, n int) {
	o := p.o
	switch p.kind {
	case "read", "readAll":
		if n < 0 || n > len(p.buf) {
			w.fail("op #%d (%s on %s, buffer %d) reported n=%d", p.id, p.kind, o.name(), len(p.buf), n)
			return
		}
		if w.checkContent {
			if err == nil {
				if n == 0 && len(p.buf) > 0 {
					w.fail("op #%d (%s on %s) succeeded with 0 bytes", p.id, p.kind, o.name())
				}
				if p.kind == "readAll" && n != len(p.buf) {
					w.fail("AsyncReadAll #%d on %s reported success with %d of %d bytes", p.id, o.name(), n, len(p.buf))
				}
			}
			if o.contentOK {
				if o.rdOff+int64(n) > o.peerWrote {
					w.fail("op #%d (%s on %s) reports %d bytes at offset %d but the peer only wrote %d bytes in total: invented bytes", p.id, p.kind, o.name(), n, o.rdOff, o.peerWrote)
				}
				for i := 0; i < n; i++ {
					if p.buf[i] != byteAt(o.id, 'r', o.rdOff+int64(i)) {
						w.fail("op #%d (%s on %s): byte %d of the buffer (stream offset %d) is %#x, the peer wrote %#x there (lost, duplicated or reordered bytes)", p.id, p.kind, o.name(), i, o.rdOff+int64(i), p.buf[i], byteAt(o.id, 'r', o.rdOff+int64(i)))
						break
					}
				}
			}
		}
		o.rdOff += int64(n)
	case "write", "writeAll":
		if n < 0 || n > len(p.buf) {
			w.fail("op #%d (%s on %s, buffer %d) reported n=%d", p.id, p.kind, o.name(), len(p.buf), n)
			return
		}
		if w.checkContent && err == nil {
			if n == 0 && len(p.buf) > 0 {
				w.fail("op #%d (%s on %s) succeeded with 0 bytes", p.id, p.kind, o.name())
			}
			if p.kind == "writeAll" && n != len(p.buf) {
				w.fail("AsyncWriteAll #%d on %s reported success with %d of %d bytes", p.id, o.name(), n, len(p.buf))
			}
		}
		o.wrOff += int64(n)
		if err != nil && errors.Is(err, os.ErrDeadlineExceeded) {
			// the connection is healthy: exactly n bytes went out, the next write continues right after them
			break
		}
		if err != nil && len(p.buf) > 0 {
			// after a failed or cancelled write the number of bytes that really left is only bounded below by n;
			// the stream position of later writes is unknown, so no more writes are issued on this object
			o.wrErrored = true
		}
	}
}

// ---------------------------------------------------------------------------
// handler programs

func (w *world) genHops(lbl string) []whop {
	n := rapid.SampledFrom([]int{0, 0, 1, 1, 1, 2, 3}).Draw(w.rt, lbl+".n")
	var hops []whop
	for i := 0; i < n; i++ {
		hops = append(hops, whop{
			Kind:   rapid.SampledFrom([]string{"reissue", "reissue", "start", "start", "cancel", "cancel", "close", "rearm"}).Draw(w.rt, lbl+".k"),
			Target: rapid.IntRange(-1, len(w.objs)-1).Draw(w.rt, lbl+".t"),
			Op:     rapid.SampledFrom([]string{"read", "readAll", "write", "writeAll", "accept", "readFrom", "writeTo"}).Draw(w.rt, lbl+".op"),
			Size:   rapid.SampledFrom([]int{1, 7, 64, 1000, 5000}).Draw(w.rt, lbl+".sz"),
		})
	}
	return hops
}

func (w *world) runHops(p *wop) {
	for _, h := range p.prog {
		o := p.o
		if h.Target >= 0 && h.Target < len(w.objs) {
			o = w.objs[h.Target]
		}
		if o != p.o && (o.rd != nil || o.wr != nil) {
			w.crossTouch = true
		}
		if o == p.o && (o.rd != nil || o.wr != nil) && (h.Kind == "cancel" || h.Kind == "close" || h.Kind == "rearm") {
			w.crossTouch = true // its own other direction
		}
		from := fmt.Sprintf("h#%d", p.id)
		switch h.Kind {
		case "reissue":
			if p.err == nil {
				w.startOp(p.o, p.kind, len(p.buf), nil, from)
			}
		case "start":
			kind := h.Op
			ks := opKindsFor(o.kind)
			ok := false
			for _, k := range ks {
				if k == kind {
					ok = true
				}
			}
			if !ok {
				kind = ks[h.Size%len(ks)]
			}
			w.startOp(o, kind, h.Size, nil, from)
		case "cancel":
			w.cancelObj(o, from)
		case "rearm":
			// cancel, then start again on the same object: a stale batch entry of that object may still be pending
			w.cancelObj(o, from)
			ks := opKindsFor(o.kind)
			w.startOp(o, ks[h.Size%len(ks)], h.Size, nil, from)
		case "close":
			w.closeObj(o, from)
		case "post":
			if w.postHook != nil {
				w.postHook(from)
			}
		}
	}
}

func (w *world) cancelObj(o *wobj, from string) {
	if o.closed || o.st == nil || o.broken {
		return
	}
	was := []*wop{}
	for _, p := range []*wop{o.rd, o.wr} {
		if p != nil && p.deferred {
			was = append(was, p)
		}
	}
	w.log("%s:%s.Cancel", from, o.name())
	prev := w.cancelSet
	w.cancelSet = map[*wop]bool{}
	for k, v := range prev {
		w.cancelSet[k] = v
	}
	for _, p := range was {
		w.cancelSet[p] = true
	}
	o.st.Cancel()
	w.cancelSet = prev
	for _, p := range was {
		if p.dropped {
			continue // a handler closed the object in the middle of Cancel: Close wins, no callback after it
		}
		if p.calls != 1 {
			w.fail("Cancel on %s returned but in-flight op #%d (%s) has been completed %d times (want exactly once, with a cancellation error)", o.name(), p.id, p.kind, p.calls)
		} else if !errors.Is(p.err, sonicerrors.ErrCancelled) {
			w.fail("Cancel on %s completed op #%d (%s) with %v, want a cancellation error", o.name(), p.id, p.kind, p.err)
		}
	}
}

var devNull = func() int {
	fd, _ := syscall.Open("/dev/null", syscall.O_RDWR|syscall.O_CLOEXEC, 0)
	return fd
}()

func (w *world) closeObj(o *wobj, from string) {
	if o.closed {
		return
	}
	o.closed = true
	for _, p := range []*wop{o.rd, o.wr} {
		if p != nil && p.calls == 0 {
			p.dropped = true
			if o.peerGone != "" {
				w.faultWhileDeferred = true
			}
		}
	}
	o.rd, o.wr = nil, nil
	w.log("%s:%s.Close", from, o.name())
	switch {
	case o.st != nil:
		_ = o.st.Close()
		if o.netc != nil {
			// the adapter closed the descriptor number the net.Conn still believes it owns: park /dev/null on that
			// number so that closing the net.Conn cannot hit a descriptor that was handed to someone else meanwhile
			_ = syscall.Dup3(devNull, o.rawFd, syscall.O_CLOEXEC)
			_ = o.netc.Close()
		}
	case o.ln != nil:
		_ = o.ln.Close()
	case o.pc != nil:
		_ = o.pc.Close()
	case o.mp != nil:
		_ = o.mp.Close()
	}
}

// ---------------------------------------------------------------------------
// peer actions

func (w *world) peerWrite(o *wobj, k int) int {
	if o.peer < 0 || o.peerGone != "" || !(o.kind.stream()) || !o.canRead || o.kind == kRegFile {
		return 0
	}
	b := make([]byte, k)
	fillStream(b, o.id, 'r', o.peerWrote)
	n := sysx.WriteSome(o.peer, b)
	o.peerWrote += int64(n)
	w.log("peer:%s.write(%d)=%d", o.name(), k, n)
	if n > 0 && !o.closed {
		if !sysx.WaitReadable(o.rawFd, 1000) {
			w.infraf("peer wrote %d bytes to %s but poll(2) never reported it readable", n, o.name())
		}
	}
	return n
}

func (w *world) peerDrain(o *wobj, k int) int {
	if o.peer < 0 || o.peerGone == "closed" || o.peerGone == "reset" || !o.kind.stream() || !o.canWrite {
		return 0
	}
	b := sysx.ReadSome(o.peer, k)
	if w.checkContent && o.contentOK {
		for i, c := range b {
			if c != byteAt(o.id, 'w', o.peerRead+int64(i)) {
				w.fail("peer of %s received %#x at stream offset %d, the writes supplied %#x there (lost, duplicated or reordered bytes)", o.name(), c, o.peerRead+int64(i), byteAt(o.id, 'w', o.peerRead+int64(i)))
				break
			}
		}
	}
	o.peerRead += int64(len(b))
	if len(b) > 0 {
		w.log("peer:%s.drain(%d)=%d", o.name(), k, len(b))
	}
	return len(b)
}

func (w *world) peerFault(o *wobj, how string) {
	if o.peer < 0 || o.peerGone == "closed" || o.peerGone == "reset" || o.kind == kPacket {
		return
	}
	if (o.rd != nil && o.rd.deferred) || (o.wr != nil && o.wr.deferred) {
		w.faultWhileDeferred = true
	}
	switch how {
	case "shutwr":
		if !o.kind.tcp() && o.kind != kAdUnix {
			how = "close"
		} else {
			if o.peerGone == "" {
				_ = syscall.Shutdown(o.peer, syscall.SHUT_WR)
				o.peerGone = "shutwr"
				w.log("peer:%s.shutdown(WR)", o.name())
				if !o.closed {
					sysx.WaitReadable(o.rawFd, 1000)
				}
			}
			return
		}
	case "reset":
		if !o.kind.tcp() {
			how = "close"
		}
	}
	if how == "reset" {
		sysx.Reset(o.peer)
		o.peerGone = "reset"
	} else {
		_ = syscall.Close(o.peer)
		o.peerGone = "closed"
	}
	o.peer = -1
	w.log("peer:%s.%s", o.name(), how)
	if !o.closed {
		// settle: the kernel must show the hang-up before the next poll
		for i := 0; i < 100; i++ {
			r, _ := sysx.PollFd(o.rawFd, sysx.POLLIN|sysx.POLLOUT, 10)
			if r&(sysx.POLLHUP|sysx.POLLERR|sysx.POLLIN) != 0 {
				break
			}
		}
	}
}

func (w *world) peerConnect(o *wobj) {
	if o.kind != kListener || o.closed {
		return
	}
	_, port, err := sysx.LocalAddr4(o.rawFd)
	if err != nil {
		return
	}
	c, err := sysx.ConnectTCP(port)
	if err != nil {
		w.infraf("raw connect to %s: %v", o.name(), err)
		return
	}
	o.clients = append(o.clients, c)
	w.log("peer:%s.connect", o.name())
	if !sysx.WaitReadable(o.rawFd, 1000) {
		w.infraf("listener %s never became readable after a connect", o.name())
	}
}

func (w *world) peerSend(o *wobj, k int) {
	if (o.kind != kPacket && o.kind != kMcast) || o.closed {
		return
	}
	b := make([]byte, k)
	for i := range b {
		b[i] = byte(len(o.dgramsSent)*31 + i)
	}
	_, port, _ := sysx.LocalAddr4(o.rawFd)
	if err := syscall.Sendto(o.peer, b, 0, &syscall.SockaddrInet4{Addr: [4]byte{127, 0, 0, 1}, Port: port}); err != nil {
		w.infraf("raw sendto: %v", err)
		return
	}
	o.dgramsSent = append(o.dgramsSent, b)
	w.log("peer:%s.send(%d)", o.name(), k)
	if !sysx.WaitReadable(o.rawFd, 1000) {
		w.infraf("packet conn %s never became readable after a datagram", o.name())
	}
}

// fillSend stuffs the object's own send buffer through its raw descriptor so
// that the next write would block. The stream content is no longer checked.
func (w *world) fillSend(o *wobj) {
	if o.closed || !o.kind.stream() || !o.canWrite || o.wr != nil || o.kind == kRegFile || o.netc != nil {
		return
	}
	junk := make([]byte, 1<<16)
	total := 0
	for i := 0; i < 4096; i++ {
		n, err := syscall.Write(o.rawFd, junk)
		if n > 0 {
			total += n
		}
		if err != nil || n <= 0 {
			break
		}
	}
	o.contentOK = false
	w.log("top:%s.fillSend=%d", o.name(), total)
}

// ---------------------------------------------------------------------------
// loop driving

// atDepth runs fn from inside k nested inline completions.
func (w *world) atDepth(k int, fn func()) {
	one := []byte{1}
	ran := false
	var rec func(d int)
	rec = func(d int) {
		if d == k {
			ran = true
			fn()
			return
		}
		w.deepPC.AsyncWriteTo(one, w.sinkAddr, func(err error) { rec(d + 1) })
	}
	rec(0)
	if !ran {
		w.infraf("atDepth(%d): the helper chain did not complete inline", k)
	}
}

func (w *world) pollOnce() (int, error) {
	// what the kernel says right now about the descriptors of the deferred single-transfer operations: an operation whose
	// descriptor is ready for its direction before the poll must have been completed by it (epoll is level-triggered)
	var ready []*wop
	if w.checkReady {
		for _, p := range w.ops {
			o := p.o
			if !p.inflight() || o.closed || o.broken || o.rawFd < 0 || o.kind == kRegFile {
				continue
			}
			ev := int16(0)
			switch p.kind {
			case "read", "accept", "readFrom":
				ev = sysx.POLLIN
			case "write", "writeTo":
				ev = sysx.POLLOUT
			}
			if ev == 0 {
				continue // *All operations may need several transfers
			}
			if r, _ := sysx.PollFd(o.rawFd, ev, 0); r != 0 {
				ready = append(ready, p)
			}
		}
	}
	w.inPoll = true
	w.handlersInPoll = 0
	n, err := w.ioc.PollOne()
	w.inPoll = false
	w.log("poll=(%d,%s;handlers=%d)", n, errShort(err), w.handlersInPoll)
	for _, p := range ready {
		if p.calls == 0 && !p.dropped && !p.o.closed && !p.o.broken {
			r, _ := sysx.PollFd(p.o.rawFd, sysx.POLLIN|sysx.POLLOUT, 0)
			w.fail("op #%d (%s on %s) was deferred, its descriptor was ready for it before PollOne (revents now %#x) and PollOne (n=%d) did not complete it: the poller is not watching that direction any more; Pending()=%d", p.id, p.kind, p.o.name(), r, n, w.ioc.Pending())
			break
		}
	}
	if w.handlersInPoll >= 2 {
		w.batchMulti = true
	}
	if w.handlersInPoll > 0 && n <= 0 {
		w.fail("PollOne dispatched %d handler(s) but returned n=%d err=%v", w.handlersInPoll, n, err)
	}
	if err != nil && !errors.Is(err, sonicerrors.ErrTimeout) {
		w.fail("PollOne returned %v", err)
	}
	if n == 0 && err == nil {
		w.fail("PollOne returned (0, nil): nothing was dispatched but no timeout was reported")
	}
	return n, err
}

func (w *world) inflight() []*wop {
	var out []*wop
	for _, p := range w.ops {
		if p.inflight() {
			out = append(out, p)
		}
	}
	return out
}

// drain makes every in-flight operation completable and runs the loop until
// all of them completed; an operation that stays in flight although the
// kernel reports its descriptor ready and the loop keeps being polled is a
// violation ("never zero times").
func (w *world) drain() {
	w.quiesce = true
	stuck := 0
	for round := 0; round < 3000 && w.problem == "" && w.infra == ""; round++ {
		fl := w.inflight()
		if len(fl) == 0 {
			return
		}
		progress := 0
		ready := 0
		for _, p := range fl {
			o := p.o
			switch p.kind {
			case "read", "readAll":
				if o.peerGone == "" && o.kind != kRegFile {
					// supply what the operation may still need
					unread := o.peerWrote - o.rdOff
					if unread < int64(len(p.buf)) {
						progress += w.peerWrite(o, len(p.buf))
					}
				}
				r, _ := sysx.PollFd(o.rawFd, sysx.POLLIN, 200)
				if r&(sysx.POLLIN|sysx.POLLHUP|sysx.POLLERR) != 0 {
					ready++
				}
			case "write", "writeAll":
				for {
					n := w.peerDrain(o, 1<<20)
					progress += n
					if n == 0 {
						break
					}
				}
				r, _ := sysx.PollFd(o.rawFd, sysx.POLLOUT, 200)
				if r&(sysx.POLLOUT|sysx.POLLHUP|sysx.POLLERR) != 0 {
					ready++
				}
			case "accept":
				if len(o.clients) == len(o.accepted) || !sysx.WaitReadable(o.rawFd, 0) {
					w.peerConnect(o)
				}
				if sysx.WaitReadable(o.rawFd, 200) {
					ready++
				}
			case "readFrom":
				if !sysx.WaitReadable(o.rawFd, 0) {
					w.peerSend(o, 5)
				}
				if sysx.WaitReadable(o.rawFd, 200) {
					ready++
				}
			case "writeTo":
				if sysx.WaitWritable(o.rawFd, 200) {
					ready++
				}
			}
		}
		before := len(fl)
		sig := w.kernelSignature(fl)
		w.pollOnce()
		after := len(w.inflight())
		if after < before || progress > 0 || sig != w.kernelSignature(fl) {
			stuck = 0
			continue
		}
		if ready == 0 {
			w.infraf("drain: %d operations in flight but the harness could not make any descriptor ready (first: #%d %s on %s)", before, fl[0].id, fl[0].kind, fl[0].o.name())
			return
		}
		stuck++
		if stuck >= 3 {
			p := fl[0]
			for _, q := range fl {
				r, _ := sysx.PollFd(q.o.rawFd, sysx.POLLIN|sysx.POLLOUT, 0)
				if r != 0 {
					p = q
					break
				}
			}
			r, _ := sysx.PollFd(p.o.rawFd, sysx.POLLIN|sysx.POLLOUT, 0)
			w.fail("op #%d (%s on %s, peer %q) never completes: poll(2) reports revents=%#x on its descriptor and PollOne ran %d more times without invoking its callback", p.id, p.kind, p.o.name(), p.o.peerGone, r, stuck)
			return
		}
	}
}

// kernelSignature summarises how many bytes sit in the kernel for the given operations; a change across a PollOne
// means the loop moved data even if no user callback ran yet (ReadAll/WriteAll in progress).
func (w *world) kernelSignature(ops []*wop) string {
	var sb strings.Builder
	for _, p := range ops {
		o := p.o
		if o.closed {
			continue
		}
		peerUnread := -1
		if o.peer >= 0 {
			peerUnread = sysx.Unread(o.peer)
		}
		fmt.Fprintf(&sb, "%d:%d/%d/%d;", p.id, sysx.Unread(o.rawFd), sysx.Unsent(o.rawFd), peerUnread)
	}
	return sb.String()
}

func (w *world) checkNow() {
	if w.infra != "" {
		w.rt.Fatalf("INFRA: %s; trace=%v", w.infra, w.trace)
	}
	if w.problem != "" {
		w.rt.Fatalf("%s; trace=%v", w.problem, w.trace)
	}
}

var _ = io.EOF
var _ = time.Now

func sysxWaitReadable(fd, ms int) bool {
	if fd < 0 {
		return false
	}
	return sysx.WaitReadable(fd, ms)
}

// deadlineWrite issues a large AsyncWriteAll on an adapter whose net.Conn has a short write deadline: the peer is not
// draining, so net.Conn.Write returns a partial count together with a timeout error. The reported count must be exactly
// what went out (the stream is continued from it and the peer-side content check notices any shift).
func (w *world) deadlineWrite(o *wobj, size int, from string) *wop {
	if o.netc == nil || o.closed || o.wr != nil || o.wrErrored || !o.contentOK || !sysx.WaitWritable(o.rawFd, 0) {
		return nil
	}
	o.deadlineArmed = true
	p := w.startOp(o, "writeAll", size, nil, from) // deferred: an adapter never writes inline
	// arm the deadline only now: filling a multi-MiB buffer with position-dependent bytes takes longer than the deadline
	_ = o.netc.SetWriteDeadline(time.Now().Add(15 * time.Millisecond))
	// the adapter always defers: the write happens inside the next polls
	for i := 0; i < 50 && p != nil && p.calls == 0; i++ {
		sysx.WaitWritable(o.rawFd, 20)
		w.pollOnce()
	}
	if p != nil && p.calls == 0 {
		// never dispatched (descriptor not writable): get rid of the big write while the deadline still protects it
		w.cancelObj(o, from)
	}
	_ = o.netc.SetWriteDeadline(time.Time{})
	o.deadlineArmed = false
	return p
}
