package loop

// C03 through the WebSocket stream: operations the stream has in flight on its transport are operations in flight on the
// IO context; when the application tears the connection down (CloseNextLayer) they are "closed" and must stop counting,
// or RunPending never returns.

import (
	"bufio"
	"fmt"
	"net"
	"net/http"
	"testing"
	"time"

	"github.com/talostrading/sonic"
	"github.com/talostrading/sonic/codec/websocket"
	"pgregory.net/rapid"
	"verif/internal/evid"
	"verif/internal/known"
	"verif/internal/rfc6455"
	"verif/internal/vt"
)

func TestC03_WebsocketTeardown(t *testing.T) {
	rec := evid.For("C03")
	leakKnown := known.Listed("C03", "websocket-closenextlayer-pending")
	vt.Check(t, 60, func(rt *rapid.T) {
		ln, err := net.Listen("tcp", "127.0.0.1:0")
		if err != nil {
			rt.Fatalf("INFRA: listen: %v", err)
		}
		defer ln.Close()
		srvc := make(chan net.Conn, 1)
		go func() {
			c, err := ln.Accept()
			if err != nil {
				srvc <- nil
				return
			}
			_ = c.(*net.TCPConn).SetLinger(0)
			_ = c.SetDeadline(time.Now().Add(5 * time.Second))
			req, err := http.ReadRequest(bufio.NewReader(c))
			if err != nil {
				_ = c.Close()
				srvc <- nil
				return
			}
			fmt.Fprintf(c, "HTTP/1.1 101 Switching Protocols\r\nUpgrade: websocket\r\nConnection: Upgrade\r\nSec-WebSocket-Accept: %s\r\n\r\n", rfc6455.AcceptKey(req.Header.Get("Sec-WebSocket-Key")))
			srvc <- c
		}()
		ioc, err := sonic.NewIO()
		if err != nil {
			rt.Fatalf("INFRA: NewIO: %v", err)
		}
		defer ioc.Close()
		s, err := websocket.NewWebsocketStream(ioc, nil, websocket.RoleClient)
		if err != nil {
			rt.Fatalf("INFRA: %v", err)
		}
		if err := s.Handshake("ws://" + ln.Addr().String() + "/"); err != nil {
			rt.Fatalf("INFRA: handshake: %v", err)
		}
		srv := <-srvc
		if srv == nil {
			rt.Fatalf("INFRA: server side of the handshake failed")
		}
		defer srv.Close()
		base := ioc.Pending()
		writes := rapid.IntRange(0, 3).Draw(rt, "writes")
		read := rapid.Bool().Draw(rt, "read")
		if writes == 0 && !read {
			read = true
		}
		calls := 0
		for i := 0; i < writes; i++ {
			s.AsyncWrite([]byte{byte(i), 1, 2}, websocket.TypeBinary, func(error) { calls++ })
		}
		if read {
			s.AsyncNextFrame(func(error, websocket.Frame) { calls++ })
		}
		polls := rapid.IntRange(0, 2).Draw(rt, "pollsBeforeTeardown")
		for i := 0; i < polls; i++ {
			_, _ = ioc.PollOne()
		}
		inflight := ioc.Pending() - base
		desc := fmt.Sprintf("writes=%d read=%v polls=%d (Pending %d above the idle value before the teardown)", writes, read, polls, inflight)
		_ = s.CloseNextLayer()
		for i := 0; i < 3; i++ {
			_, _ = ioc.PollOne()
		}
		reproduced := ioc.Pending() != base
		if leakKnown {
			rec.ExcludedKnown(1)
			return
		}
		if reproduced {
			rt.Fatalf("IO.Pending()=%d after the stream's connection was closed with CloseNextLayer, %d when the stream was idle: the operations it had in flight on the transport are still counted although they can never complete (RunPending would never return); %s", ioc.Pending(), base, desc)
		}
		// and RunPending agrees
		done := make(chan error, 1)
		go func() { done <- ioc.RunPending() }()
		select {
		case <-done:
		case <-time.After(3 * time.Second):
			rt.Fatalf("RunPending did not return within 3 s although nothing is in flight any more (Pending()=%d); %s", ioc.Pending(), desc)
		}
		rec.Case("wsteardown|"+desc, inflight > 0, []string{"websocket-teardown-with-operations-in-flight"}, map[string]any{"case": desc, "callbacks_run": calls})
	})
}
