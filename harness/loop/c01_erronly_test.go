package loop

// C01 - readiness that the kernel reports as an error condition only. A connected datagram socket (sonic.Dial "udp")
// whose peer port is closed receives ICMP port-unreachable after a send: the socket is in error, epoll reports
// EPOLLERR without EPOLLIN/EPOLLOUT. A read deferred on it must still complete, exactly once.

import (
	"fmt"
	"strings"
	"syscall"
	"testing"

	"github.com/talostrading/sonic"
	"pgregory.net/rapid"
	"verif/internal/evid"
	"verif/internal/sysx"
	"verif/internal/vt"
)

func TestC01_ErrorOnlyReadiness(t *testing.T) {
	rec := evid.For("C01")
	vt.Check(t, 150, func(rt *rapid.T) {
		ioc, err := sonic.NewIO()
		if err != nil {
			rt.Fatalf("INFRA: NewIO: %v", err)
		}
		defer ioc.Close()
		type uobj struct {
			conn     sonic.Conn
			fd       int
			peer     int // raw datagram socket the conn is connected to; -1 once closed
			calls    []int
			errs     []error
			inflight int // index of the read in flight, -1 none
			all      []bool
			rearm    int // how many more reads the callbacks start
		}
		n := rapid.IntRange(1, 3).Draw(rt, "conns")
		var objs []*uobj
		var trace []string
		for i := 0; i < n; i++ {
			p, err := syscall.Socket(syscall.AF_INET, syscall.SOCK_DGRAM|syscall.SOCK_NONBLOCK|syscall.SOCK_CLOEXEC, 0)
			if err != nil {
				rt.Fatalf("INFRA: socket: %v", err)
			}
			_ = syscall.Bind(p, &syscall.SockaddrInet4{Addr: [4]byte{127, 0, 0, 1}})
			_, port, _ := sysx.LocalAddr4(p)
			c, err := sonic.Dial(ioc, "udp", fmt.Sprintf("127.0.0.1:%d", port))
			if err != nil {
				_ = syscall.Close(p)
				rt.Fatalf("INFRA: Dial udp: %v", err)
			}
			o := &uobj{conn: c, fd: c.RawFd(), peer: p, inflight: -1, rearm: rapid.IntRange(0, 2).Draw(rt, "rearm")}
			// the peer answers to the conn's address
			if ip, lport, err := sysx.LocalAddr4(o.fd); err == nil {
				var a [4]byte
				copy(a[:], ip.To4())
				_ = syscall.Connect(p, &syscall.SockaddrInet4{Addr: a, Port: lport})
			}
			objs = append(objs, o)
		}
		defer func() {
			for _, o := range objs {
				_ = o.conn.Close()
				if o.peer >= 0 {
					_ = syscall.Close(o.peer)
				}
			}
		}()
		var startRead func(o *uobj, i int)
		startRead = func(o *uobj, i int) {
			k := len(o.calls)
			o.calls = append(o.calls, 0)
			o.errs = append(o.errs, nil)
			o.inflight = k
			all := rapid.Bool().Draw(rt, "readAll")
			o.all = append(o.all, all)
			buf := make([]byte, rapid.SampledFrom([]int{1, 16, 2000}).Draw(rt, "buf"))
			cb := func(err error, n int) {
				o.calls[k]++
				o.errs[k] = err
				if o.inflight == k {
					o.inflight = -1
				}
				trace = append(trace, fmt.Sprintf("cb:c%d.read#%d(%v,%d)", i, k, err, n))
				if o.calls[k] == 1 && o.rearm > 0 {
					o.rearm--
					startRead(o, i)
				}
			}
			trace = append(trace, fmt.Sprintf("c%d.AsyncRead#%d(all=%v,len=%d)", i, k, all, len(buf)))
			if all {
				o.conn.AsyncReadAll(buf, cb)
			} else {
				o.conn.AsyncRead(buf, cb)
			}
		}
		for i, o := range objs {
			startRead(o, i)
			if o.inflight < 0 {
				rt.Fatalf("INFRA: read on an idle datagram socket completed inline; trace=%v", trace)
			}
		}
		// events: the peer goes away and a send provokes the ICMP error, or the peer sends a datagram
		errOnly := 0
		touched := map[*uobj]bool{}
		for i, o := range objs {
			touched[o] = true
			switch rapid.SampledFrom([]string{"refused", "refused", "data", "nothing"}).Draw(rt, "event") {
			case "refused":
				_ = syscall.Close(o.peer)
				o.peer = -1
				if rapid.Bool().Draw(rt, "viaConn") {
					_, _ = o.conn.Write([]byte("ping"))
				} else {
					_, _ = syscall.Write(o.fd, []byte("ping"))
				}
				trace = append(trace, fmt.Sprintf("c%d:peer-closed+send", i))
			case "data":
				_, _ = syscall.Write(o.peer, []byte("hello"))
				trace = append(trace, fmt.Sprintf("c%d:peer-data", i))
			default:
				touched[o] = false
			}
		}
		// what the kernel says about each descriptor decides what must complete
		must := map[*uobj]int{}
		for _, o := range objs {
			wait := 0
			if touched[o] {
				wait = 300 // loopback delivery and the ICMP answer are normally there at once
			}
			r, _ := sysx.PollFd(o.fd, sysx.POLLIN, wait)
			// (a ReadAll that got a datagram shorter than its buffer legitimately keeps waiting; an error ends it)
			if r != 0 && o.inflight >= 0 && (!o.all[o.inflight] || r&sysx.POLLIN == 0) {
				must[o] = o.inflight
				if r&sysx.POLLIN == 0 {
					errOnly++
				}
			}
			trace = append(trace, fmt.Sprintf("revents=%#x", r))
		}
		for k := 0; k < 4; k++ {
			_, _ = ioc.PollOne()
		}
		for i, o := range objs {
			if k, ok := must[o]; ok && o.calls[k] == 0 {
				r, _ := sysx.PollFd(o.fd, sysx.POLLIN, 0)
				rt.Fatalf("c%d: read #%d was never completed although the kernel reports the descriptor ready (revents %#x now) and the loop was polled 4 times; Pending()=%d; trace=%v", i, k, r, ioc.Pending(), trace)
			}
			for k, c := range o.calls {
				if c > 1 {
					rt.Fatalf("c%d: read #%d completed %d times; trace=%v", i, k, c, trace)
				}
			}
		}
		// whatever is still in flight is cancelled by Close: no callback after Close returned
		for _, o := range objs {
			_ = o.conn.Close()
		}
		before := fmt.Sprint(trace)
		for k := 0; k < 2; k++ {
			_, _ = ioc.PollOne()
		}
		if fmt.Sprint(trace) != before {
			rt.Fatalf("a callback ran after Close returned; trace=%v", trace)
		}
		if p := ioc.Pending(); p != 0 {
			rt.Fatalf("Pending()=%d after every object was closed; trace=%v", p, trace)
		}
		cls := []string{"connected-datagram-socket"}
		if errOnly > 0 {
			cls = append(cls, "error-only-readiness(EPOLLERR without EPOLLIN)")
		}
		rec.Case("erronly:"+strings.Join(trace, ","), errOnly > 0, cls, map[string]any{"conns": n, "error_only_wakeups": errOnly, "trace": trace})
	})
}
