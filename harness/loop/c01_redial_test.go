package loop

// C01 - "never zero times" for an operation of a NEW object that a completion callback of an old one creates: the callback
// closes its own connection and dials again from inside the callback (what reconnect logic does), so the new connection
// receives the descriptor number that was just released, and defers a read. Nothing but the event loop refers to the new
// connection afterwards; the collector runs; the peer sends. The read must complete exactly once.

import (
	"fmt"
	"runtime"
	"sync/atomic"
	"syscall"
	"testing"
	"time"

	"github.com/talostrading/sonic"
	"pgregory.net/rapid"
	"verif/internal/evid"
	"verif/internal/sysx"
	"verif/internal/vt"
)

type redialState struct {
	ioc       *sonic.IO
	ln        *sysx.RawTCPListener
	peers     []int   // raw server-side sockets, one per generation
	fds       []int   // descriptor numbers of the generations (to release them by number at the end)
	calls     []int32 // completions per generation
	finalized int32
	gens      int
	viaWrite  []bool
	problem   string
}

type redialSentinel struct{ gen int }

// dialGen dials generation g and starts its deferred operation; nothing but the callback refers to the connection.
//
//go:noinline
func (st *redialState) dialGen(g int) {
	c, err := sonic.Dial(st.ioc, "tcp", st.ln.Addr())
	if err != nil {
		st.problem = "INFRA: dial: " + err.Error()
		return
	}
	p, err := st.ln.Accept(2000)
	if err != nil {
		st.problem = "INFRA: accept: " + err.Error()
		return
	}
	st.peers = append(st.peers, p)
	st.fds = append(st.fds, c.RawFd())
	s := &redialSentinel{g}
	runtime.SetFinalizer(s, func(*redialSentinel) { atomic.AddInt32(&st.finalized, 1) })
	next := func(err error, n int) {
		atomic.AddInt32(&st.calls[g], 1)
		runtime.KeepAlive(s)
		if g+1 < st.gens {
			_ = c.Close()     // releases the number ...
			st.dialGen(g + 1) // ... which the next generation's socket receives
		}
	}
	if st.viaWrite[g] {
		// a write that has to wait: fill the socket buffer first
		junk := make([]byte, 1<<16)
		for i := 0; i < 4096; i++ {
			if n, err := syscall.Write(c.RawFd(), junk); err != nil || n <= 0 {
				break
			}
		}
		c.AsyncWrite(junk[:512], next)
	} else {
		c.AsyncRead(make([]byte, 8), next)
	}
}

func TestC01_RedialFromCallback(t *testing.T) {
	rec := evid.For("C01")
	vt.Check(t, 60, func(rt *rapid.T) {
		ioc, err := sonic.NewIO()
		if err != nil {
			rt.Fatalf("INFRA: NewIO: %v", err)
		}
		defer ioc.Close()
		ln, err := sysx.ListenTCP()
		if err != nil {
			rt.Fatalf("INFRA: listen: %v", err)
		}
		defer ln.Close()
		st := &redialState{ioc: ioc, ln: ln, gens: rapid.IntRange(2, 4).Draw(rt, "generations")}
		st.calls = make([]int32, st.gens)
		for g := 0; g < st.gens; g++ {
			st.viaWrite = append(st.viaWrite, rapid.IntRange(0, 3).Draw(rt, "viaWrite") == 0)
		}
		gcEvery := rapid.Bool().Draw(rt, "gcAfterEveryGeneration")
		defer func() {
			for _, p := range st.peers {
				sysx.Reset(p)
			}
			for _, fd := range st.fds {
				_ = syscall.Close(fd) // generations nobody closed (the last one; earlier ones if a callback never ran)
			}
		}()
		st.dialGen(0)
		if st.problem != "" {
			rt.Fatalf("%s", st.problem)
		}
		reused := 0
		for g := 0; g < st.gens; g++ {
			if atomic.LoadInt32(&st.calls[g]) != 0 {
				rt.Fatalf("INFRA: the operation of generation %d was not deferred", g)
			}
			if gcEvery || g == st.gens-1 {
				for i := 0; i < 3; i++ {
					runtime.GC()
					time.Sleep(time.Millisecond)
				}
			}
			if f := atomic.LoadInt32(&st.finalized); int(f) > g {
				rt.Fatalf("generation %d's connection (descriptor %d, dialled from the completion callback of generation %d, which had closed its own connection) was garbage collected while its operation is in flight: %d callback sentinels finalized, %d operations completed", g, st.fds[g], g-1, f, g)
			}
			// make generation g's operation completable
			if st.viaWrite[g] {
				for i := 0; i < 400 && atomic.LoadInt32(&st.calls[g]) == 0; i++ {
					sysx.ReadSome(st.peers[g], 1<<20)
					_ = ioc.RunOneFor(2 * time.Millisecond)
				}
			} else {
				_, _ = syscall.Write(st.peers[g], []byte("x"))
				for i := 0; i < 200 && atomic.LoadInt32(&st.calls[g]) == 0; i++ {
					_ = ioc.RunOneFor(2 * time.Millisecond)
				}
			}
			if n := atomic.LoadInt32(&st.calls[g]); n != 1 {
				rt.Fatalf("the deferred operation of generation %d (descriptor %d) completed %d times after it was made completable (Pending()=%d)", g, st.fds[g], n, ioc.Pending())
			}
			if st.problem != "" {
				rt.Fatalf("%s", st.problem)
			}
			if g > 0 && st.fds[g] == st.fds[g-1] {
				reused++
			}
		}
		rec.Case(fmt.Sprintf("redial|%d|%v|%v", st.gens, st.viaWrite, gcEvery), reused > 0, []string{"redial-from-completion-callback"}, map[string]any{"generations": st.gens, "descriptor_number_reused": reused, "via_write": st.viaWrite})
	})
}
