package loop

// C03 — event-loop accounting and RunPending termination.

import (
	"errors"
	"fmt"
	"os"
	"os/signal"
	"runtime"
	"strings"
	"sync/atomic"
	"syscall"
	"testing"
	"time"

	"github.com/talostrading/sonic"
	"github.com/talostrading/sonic/sonicerrors"
	"golang.org/x/sys/unix"
	"pgregory.net/rapid"
	"verif/internal/evid"
	"verif/internal/sysx"
	"verif/internal/vt"
)

var c03Kinds = []objKind{kTCPDial, kTCPAcc, kAdUnix, kFifoR, kFifoW, kListener, kPacket, kRegFile}

func (w *world) ledger() int64 {
	n := int64(0)
	for _, p := range w.ops {
		if p.inflight() {
			n++
		}
	}
	for _, t := range w.timers {
		if t.armed {
			n++
		}
	}
	return n + int64(w.postsPending)
}

func (w *world) checkLedger(where string) {
	if got, want := w.ioc.Pending(), w.ledger(); got != want {
		var fl []string
		for _, p := range w.inflight() {
			fl = append(fl, fmt.Sprintf("#%d %s on %s", p.id, p.kind, p.o.name()))
		}
		armed := 0
		for _, t := range w.timers {
			if t.armed {
				armed++
			}
		}
		w.fail("%s: Pending()=%d but %d operations are in flight (ops %v, armed timers %d, posted handlers %d)", where, got, want, fl, armed, w.postsPending)
	}
}

// runPendingWatchdog runs RunPending; if it does not return within the limit the
// history is printed and the process exits: non-termination is part of the oracle here.
func (w *world) runPendingWatchdog(limit time.Duration) error {
	done := make(chan struct{})
	var fired int32
	go func() {
		select {
		case <-done:
		case <-time.After(limit):
			atomic.StoreInt32(&fired, 1)
			fmt.Printf("WATCHDOG: RunPending did not return within %v although every operation in flight was made ready and Pending() matched the ledger; ledger=%d Pending()=%d trace=%v\n", limit, w.ledger(), w.ioc.Pending(), w.trace)
			os.Exit(1)
		}
	}()
	err := w.ioc.RunPending()
	close(done)
	return err
}

func TestC03_PendingLedger(t *testing.T) {
	rec := evid.For("C03")
	rec.SetRule("rapid state machine over a world of 2..5 objects (conns, adapter, FIFO ends, listener, packet conn, regular file) plus 0..3 timers and Post on one IO: start ops (top level / dispatch limit), peer actions, Cancel, Close, timer ScheduleOnce/Cancel/Close, sleep, Post (top level, from completion handlers, and 1..2 levels deep from inside posted handlers; bursts of 100..3000 between two polls), failing registrations (regular file at the dispatch limit -> EPERM; descriptor replaced underneath -> epoll_ctl fails on register and on Close); after every top-level step IO.Pending() must equal the harness ledger (ops in flight + armed timers + posted-not-run handlers); PollOne: n>0 iff a handler ran is required one way (handler ran => n>0), n==0 => ErrTimeout, and with an empty ledger (0,ErrTimeout); end of case: everything in flight is made ready, then RunPending (under a 10 s watchdog) must return nil with an empty ledger and every op completed once, and return immediately when called again; non-trivial = >=3 kinds of ledger entry in one history OR a failed registration; distinct = hash of the trace")
	rec.Assume("operation sizes <= 4 KiB so that one peer action makes an operation completable")
	vt.CheckSteps(t, 1200, 30, func(rt *rapid.T) {
		w := newWorld(rt)
		w.checkReady = true
		defer w.close()
		n := rapid.IntRange(2, 5).Draw(rt, "nobjs")
		for i := 0; i < n; i++ {
			w.addObject(rapid.SampledFrom(c03Kinds).Draw(rt, "kind"))
		}
		nt := rapid.IntRange(0, 3).Draw(rt, "ntimers")
		for i := 0; i < nt; i++ {
			tm, err := sonic.NewTimer(w.ioc)
			if err != nil {
				rt.Fatalf("INFRA: NewTimer: %v", err)
			}
			w.timers = append(w.timers, &wtimer{t: tm, id: i})
		}
		defer func() {
			for _, t := range w.timers {
				_ = t.t.Close()
			}
		}()
		kindsSeen := map[string]bool{}
		failedReg := false
		nestedPosts := false
		broken := map[*wobj]bool{}
		pickObj := func(lbl string) *wobj { return w.objs[rapid.IntRange(0, len(w.objs)-1).Draw(rt, lbl)] }
		sizes := rapid.SampledFrom([]int{1, 3, 64, 1000, 4096})
		noteKinds := func() {
			for _, p := range w.inflight() {
				switch p.kind {
				case "read", "readAll", "readFrom":
					kindsSeen["read"] = true
				case "write", "writeAll", "writeTo":
					kindsSeen["write"] = true
				case "accept":
					kindsSeen["accept"] = true
				}
			}
			for _, t := range w.timers {
				if t.armed {
					kindsSeen["timer"] = true
				}
			}
			if w.postsPending > 0 {
				kindsSeen["post"] = true
			}
		}
		// post posts a handler that, when nest > 0, posts again from inside the loop (and so on, nest levels deep): a
		// handler posted while posted handlers run is in flight like any other and must keep the loop awake.
		var post func(from string, nest int)
		post = func(from string, nest int) {
			w.postsPending++
			w.log("%s:Post(nest=%d)", from, nest)
			if err := w.ioc.Post(func() {
				w.postsPending--
				w.handlersInPoll++
				w.log("posted-ran")
				if nest > 0 {
					nestedPosts = true
					post("posted", nest-1)
				}
			}); err != nil {
				w.fail("Post: %v", err)
			}
		}
		hookPosts := 0
		start := func(rt *rapid.T, deep bool) {
			o := pickObj("o")
			if broken[o] && !deep {
				rt.Skip("descriptor was replaced")
			}
			ks := opKindsFor(o.kind)
			kind := ks[rapid.IntRange(0, len(ks)-1).Draw(rt, "kind")]
			size := sizes.Draw(rt, "size")
			if !w.canStart(o, kind) {
				rt.Skip("not startable")
			}
			var prog []whop
			if !broken[o] {
				prog = w.genHops("hp")
			}
			for i := range prog {
				// keep handler programs away from descriptors that were replaced underneath
				if prog[i].Target >= 0 && prog[i].Target < len(w.objs) && broken[w.objs[prog[i].Target]] {
					prog[i].Kind = "none"
				}
				if prog[i].Size > 4096 {
					prog[i].Size = 4096
				}
			}
			if rapid.IntRange(0, 3).Draw(rt, "postInHandler") == 0 {
				prog = append(prog, whop{Kind: "post"})
			}
			var p *wop
			if deep {
				w.atDepth(32, func() { p = w.startOp(o, kind, size, prog, "deep") })
			} else {
				p = w.startOp(o, kind, size, prog, "top")
			}
			if p != nil && deep && p.calls == 1 && p.err != nil && (o.kind == kRegFile || broken[o]) {
				failedReg = true
			}
		}
		w.postHook = func(from string) { hookPosts++; post(from, hookPosts%2) }
		rt.Repeat(map[string]func(*rapid.T){
			"start":     func(rt *rapid.T) { start(rt, false) },
			"start2":    func(rt *rapid.T) { start(rt, false) },
			"startDeep": func(rt *rapid.T) { start(rt, true) },
			"peerData": func(rt *rapid.T) {
				o := pickObj("o")
				if broken[o] {
					rt.Skip("descriptor was replaced")
				}
				switch {
				case o.kind == kListener:
					w.peerConnect(o)
				case o.kind == kPacket:
					w.peerSend(o, rapid.SampledFrom([]int{1, 10, 500}).Draw(rt, "k"))
				case o.canRead && rapid.Bool().Draw(rt, "w"):
					w.peerWrite(o, rapid.SampledFrom([]int{1, 5, 100, 3000}).Draw(rt, "k"))
				default:
					w.peerDrain(o, 1<<20)
				}
			},
			"peerFault": func(rt *rapid.T) {
				o := pickObj("o")
				if rapid.IntRange(0, 3).Draw(rt, "really") != 0 || broken[o] {
					rt.Skip("rarely")
				}
				w.peerFault(o, rapid.SampledFrom([]string{"close", "reset", "shutwr"}).Draw(rt, "how"))
			},
			"fillSend": func(rt *rapid.T) {
				o := pickObj("o")
				if rapid.IntRange(0, 2).Draw(rt, "really") != 0 || broken[o] {
					rt.Skip("rarely")
				}
				w.fillSend(o)
			},
			"cancel": func(rt *rapid.T) {
				o := pickObj("o")
				if o.st == nil || o.closed || broken[o] {
					rt.Skip("no Cancel")
				}
				w.cancelObj(o, "top")
			},
			"close": func(rt *rapid.T) {
				if rapid.IntRange(0, 3).Draw(rt, "really") != 0 {
					rt.Skip("rarely")
				}
				o := pickObj("o")
				if broken[o] && !o.closed {
					failedReg = true // Close has to remove interests from a descriptor epoll no longer knows
				}
				w.closeObj(o, "top")
			},
			"replaceFd": func(rt *rapid.T) {
				// the descriptor is closed underneath the object; /dev/null is parked on its number so that nothing
				// else can receive it. epoll_ctl now fails for this object (EPERM/ENOENT).
				o := pickObj("o")
				if rapid.IntRange(0, 3).Draw(rt, "really") != 0 || o.closed || broken[o] || !(o.kind == kTCPDial || o.kind == kTCPAcc || o.kind == kFifoR || o.kind == kFifoW) {
					rt.Skip("rarely")
				}
				_ = syscall.Dup3(devNull, o.rawFd, syscall.O_CLOEXEC)
				broken[o] = true
				o.broken = true
				// the kernel dropped the registration together with the old file: in-flight ops can no longer complete
				w.log("top:%s.replaceFd", o.name())
			},
			"timerOnce": func(rt *rapid.T) {
				if len(w.timers) == 0 {
					rt.Skip("no timers")
				}
				tm := w.timers[rapid.IntRange(0, len(w.timers)-1).Draw(rt, "t")]
				d := rapid.IntRange(1, 8).Draw(rt, "ms")
				err := tm.t.ScheduleOnce(time.Duration(d)*time.Millisecond, func() {
					tm.armed = false
					w.handlersInPoll++
					w.log("timer%d-fired", tm.id)
				})
				w.log("top:timer%d.ScheduleOnce(%dms)=%v", tm.id, d, err != nil)
				if err == nil {
					tm.armed = true
				}
			},
			"timerRearmedByEarlierHandler": func(rt *rapid.T) {
				// two idle timers: B expires first and its callback cancels A - which has expired as well and sits later in
				// the same poll batch - and arms it again; A is then in flight although its batch entry was a stale one
				var idle []*wtimer
				for _, tm := range w.timers {
					if !tm.armed && !tm.closed {
						idle = append(idle, tm)
					}
				}
				if len(idle) < 2 {
					rt.Skip("fewer than two idle timers")
				}
				b, a := idle[0], idle[1]
				again := rapid.IntRange(4, 9).Draw(rt, "again")
				errA := a.t.ScheduleOnce(2*time.Millisecond, func() {
					a.armed = false
					w.handlersInPoll++
					w.log("timer%d-fired(first schedule)", a.id)
				})
				errB := b.t.ScheduleOnce(time.Millisecond, func() {
					b.armed = false
					w.handlersInPoll++
					cerr := a.t.Cancel()
					serr := a.t.ScheduleOnce(time.Duration(again)*time.Millisecond, func() {
						a.armed = false
						w.handlersInPoll++
						w.log("timer%d-fired(re-armed)", a.id)
					})
					a.armed = cerr == nil && serr == nil
					w.log("timer%d-fired: timer%d.Cancel=%v ScheduleOnce(%dms)=%v", b.id, a.id, cerr != nil, again, serr != nil)
				})
				if errA != nil || errB != nil {
					w.fail("idle timers refused a schedule: %v %v", errA, errB)
					return
				}
				a.armed, b.armed = true, true
				w.log("top:timer%d.ScheduleOnce(2ms) timer%d.ScheduleOnce(1ms){re-arms timer%d}", a.id, b.id, a.id)
				time.Sleep(4 * time.Millisecond) // both have expired: one batch
				w.pollOnce()
			},
			"timerCancel": func(rt *rapid.T) {
				if len(w.timers) == 0 {
					rt.Skip("no timers")
				}
				tm := w.timers[rapid.IntRange(0, len(w.timers)-1).Draw(rt, "t")]
				err := tm.t.Cancel()
				w.log("top:timer%d.Cancel=%v", tm.id, err != nil)
				if err == nil {
					tm.armed = false
				}
			},
			"timerClose": func(rt *rapid.T) {
				if len(w.timers) == 0 || rapid.IntRange(0, 3).Draw(rt, "really") != 0 {
					rt.Skip("rarely")
				}
				tm := w.timers[rapid.IntRange(0, len(w.timers)-1).Draw(rt, "t")]
				err := tm.t.Close()
				w.log("top:timer%d.Close=%v", tm.id, err != nil)
				if err == nil {
					tm.armed = false
					tm.closed = true
				}
			},
			"sleep": func(rt *rapid.T) {
				ms := rapid.IntRange(1, 6).Draw(rt, "ms")
				time.Sleep(time.Duration(ms) * time.Millisecond)
				w.log("sleep(%d)", ms)
			},
			"post": func(rt *rapid.T) { post("top", rapid.IntRange(0, 2).Draw(rt, "nest")) },
			"postBurst": func(rt *rapid.T) {
				// many handlers queued between two polls: each of them is in flight until it has run, no more and no less
				if rapid.IntRange(0, 5).Draw(rt, "really") != 0 {
					rt.Skip("rarely")
				}
				n := rapid.SampledFrom([]int{100, 1000, 1024, 1025, 1500, 3000}).Draw(rt, "burst")
				w.log("top:Post x%d", n)
				for i := 0; i < n; i++ {
					w.postsPending++
					if err := w.ioc.Post(func() { w.postsPending--; w.handlersInPoll++ }); err != nil {
						w.fail("Post: %v", err)
					}
				}
			},
			"poll": func(rt *rapid.T) {
				empty := w.ledger() == 0
				n, err := w.pollOnce()
				if empty && (n != 0 || !errors.Is(err, sonicerrors.ErrTimeout)) {
					w.fail("PollOne with nothing in flight returned (%d,%v), want (0, timeout)", n, err)
				}
			},
			"": func(rt *rapid.T) {
				noteKinds()
				w.checkLedger("after step")
				w.checkNow()
			},
		})
		w.checkNow()
		// --- wind down: objects whose descriptor was replaced cannot complete anything: close them
		w.quiesce = true
		for o := range broken {
			if !o.closed {
				failedReg = true
				w.closeObj(o, "end")
			}
		}
		w.checkLedger("after closing replaced descriptors")
		w.checkNow()
		// make everything in flight ready
		for _, p := range w.inflight() {
			o := p.o
			switch p.kind {
			case "read", "readAll":
				if o.peerGone == "" && o.kind != kRegFile && o.peerWrote-o.rdOff < int64(len(p.buf)) {
					w.peerWrite(o, len(p.buf))
				}
			case "write", "writeAll":
				for w.peerDrain(o, 1<<20) > 0 {
				}
			case "accept":
				w.peerConnect(o)
			case "readFrom":
				if !sysx.WaitReadable(o.rawFd, 0) {
					w.peerSend(o, 4)
				}
			}
		}
		w.checkNow()
		// writes: RunPending cannot drain peers, so large deferred writes are finished with the PollOne-based drain first
		for _, p := range w.inflight() {
			if p.kind == "write" || p.kind == "writeAll" {
				w.drain()
				break
			}
		}
		w.checkNow()
		w.checkLedger("before RunPending")
		w.checkNow()
		before := w.inflight()
		if err := w.runPendingWatchdog(10 * time.Second); err != nil {
			rt.Fatalf("RunPending returned %v; trace=%v", err, w.trace)
		}
		w.log("RunPending")
		if l := w.ledger(); l != 0 || w.ioc.Pending() != 0 {
			var fl []string
			for _, p := range w.inflight() {
				fl = append(fl, fmt.Sprintf("#%d %s on %s", p.id, p.kind, p.o.name()))
			}
			rt.Fatalf("RunPending returned while %d operations are still in flight (%v), Pending()=%d; trace=%v", l, fl, w.ioc.Pending(), w.trace)
		}
		for _, p := range before {
			if p.calls != 1 {
				rt.Fatalf("after RunPending op #%d (%s on %s) was completed %d times; trace=%v", p.id, p.kind, p.o.name(), p.calls, w.trace)
			}
		}
		t0 := time.Now()
		if err := w.runPendingWatchdog(10 * time.Second); err != nil {
			rt.Fatalf("second RunPending returned %v", err)
		}
		if time.Since(t0) > 2*time.Second {
			rt.Fatalf("RunPending with nothing in flight took %v", time.Since(t0))
		}
		w.checkNow()
		ntv := len(kindsSeen) >= 3 || failedReg
		var cls []string
		if len(kindsSeen) >= 3 {
			cls = append(cls, ">=3-kinds-of-ledger-entry")
		}
		if failedReg {
			cls = append(cls, "failed-registration")
		}
		if nestedPosts {
			cls = append(cls, "post-from-inside-a-posted-handler")
		}
		var kinds []string
		for _, o := range w.objs {
			kinds = append(kinds, string(o.kind))
		}
		rec.Case(strings.Join(kinds, "+")+"|"+strings.Join(w.trace, ","), ntv, cls, map[string]any{"objects": kinds, "timers": nt, "trace": w.trace})
	})
}

// Signals: a wait interrupted by a signal is not an error and loses no event.
func TestC03_SignalsDuringWait(t *testing.T) {
	rec := evid.For("C03")
	ch := make(chan os.Signal, 64)
	signal.Notify(ch, syscall.SIGUSR1)
	defer signal.Stop(ch)
	go func() {
		for range ch {
		}
	}()
	vt.Check(t, 40, func(rt *rapid.T) {
		runtime.LockOSThread()
		defer runtime.UnlockOSThread()
		tid := unix.Gettid()
		pid := unix.Getpid()
		ioc, err := sonic.NewIO()
		if err != nil {
			rt.Fatalf("INFRA: %v", err)
		}
		defer ioc.Close()
		tm, _ := sonic.NewTimer(ioc)
		defer tm.Close()
		delay := rapid.IntRange(10, 30).Draw(rt, "delayMs")
		gap := rapid.IntRange(200, 3000).Draw(rt, "gapUs")
		mode := rapid.SampledFrom([]string{"RunPending", "RunOneFor"}).Draw(rt, "mode")
		fired := 0
		start := time.Now()
		if err := tm.ScheduleOnce(time.Duration(delay)*time.Millisecond, func() { fired++ }); err != nil {
			rt.Fatalf("ScheduleOnce: %v", err)
		}
		stop := make(chan struct{})
		var sent int32
		go func() {
			for {
				select {
				case <-stop:
					return
				default:
				}
				_ = unix.Tgkill(pid, tid, syscall.SIGUSR1)
				atomic.AddInt32(&sent, 1)
				time.Sleep(time.Duration(gap) * time.Microsecond)
			}
		}()
		interrupted := 0
		switch mode {
		case "RunPending":
			if err := ioc.RunPending(); err != nil {
				close(stop)
				rt.Fatalf("RunPending under signals returned %v", err)
			}
		default:
			for fired == 0 && time.Since(start) < 5*time.Second {
				t0 := time.Now()
				err := ioc.RunOneFor(50 * time.Millisecond)
				if err != nil && !errors.Is(err, sonicerrors.ErrTimeout) {
					close(stop)
					rt.Fatalf("RunOneFor under signals returned %v", err)
				}
				if err != nil && time.Since(t0) < 40*time.Millisecond {
					interrupted++
				}
			}
		}
		close(stop)
		if fired != 1 {
			rt.Fatalf("timer callback ran %d times under signals (mode %s, %d signals sent)", fired, mode, atomic.LoadInt32(&sent))
		}
		if el := time.Since(start); el < time.Duration(delay)*time.Millisecond-timerEpsilon {
			rt.Fatalf("timer fired after %v, delay %dms", el, delay)
		}
		if ioc.Pending() != 0 {
			rt.Fatalf("Pending()=%d after the only operation completed", ioc.Pending())
		}
		s := int(atomic.LoadInt32(&sent))
		rec.Count("signals_sent", s)
		rec.Count("waits_cut_short_by_a_signal", interrupted)
		rec.Case(fmt.Sprintf("sig|%s|%d|%d", mode, delay, gap), s > 0, []string{"signals-" + mode}, map[string]any{"mode": mode, "delay_ms": delay, "signal_gap_us": gap, "signals_sent": s, "waits_cut_short": interrupted})
	})
}
