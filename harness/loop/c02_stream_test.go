package loop

// C02 — byte-stream fidelity and the ReadAll/WriteAll contract.

import (
	"strings"
	"testing"

	"pgregory.net/rapid"
	"verif/internal/evid"
	"verif/internal/vt"
)

var c02Kinds = []objKind{kTCPDial, kTCPAcc, kAdTCP, kAdUnix}

func TestC02_StreamFidelity(t *testing.T) {
	rec := evid.For("C02")
	rec.SetRule("rapid state machine over 1..3 stream pairs {sonic.Dial conn, accepted conn, AsyncAdapter over TCP net.Conn, AsyncAdapter over a socketpair} <-> raw peer: local AsyncRead/AsyncReadAll (1..300000 bytes) and AsyncWrite/AsyncWriteAll (1..2 MiB on conns, <=8 KiB on adapters), both directions interleaved, from top level or from the dispatch limit, handlers re-issue; adapters over TCP additionally get multi-MiB writes under a 15 ms write deadline while the peer does not drain (net.Conn.Write returns a partial count with a timeout: the reported count must be exact, the stream continues from it); peer writes/drains generated chunk sizes so that *All operations need several kernel transfers and hit would-block in the middle; both streams carry position-dependent bytes; oracle: every read completion's bytes equal the peer's stream at the running offset, 0<n<=len on success, ReadAll/WriteAll success => n==len, the peer receives exactly the written stream in order, final drained length == sum of reported n when all writes succeeded; TestC02_ByteBufferTransfers: the ByteBuffer transfer helpers over a sonic.Dial conn (append/WriteTo/AsyncWriteTo, ReadFrom/AsyncReadFrom with 1..70001 bytes of room, socket buffers 64 KiB..1 MiB, peer drains/writes generated amounts): every reported count equals what left or entered the buffer, the peer receives the appended stream exactly once in order, would-block only with nothing readable; non-trivial = an *All operation that completed from the poller (needed >=2 transfers) OR read and write in flight together OR a WriteTo that wrote part and then hit would-block OR an AsyncWriteTo completed from the poller; distinct = hash of the trace")
	rec.Assume("AsyncAdapter writes are limited to what fits the socket buffer (net.Conn.Write blocks the single harness goroutine otherwise); no Cancel/Close in the middle of the checked stream except at the end")
	vt.CheckSteps(t, 600, 30, func(rt *rapid.T) {
		w := newWorld(rt)
		w.checkReady = true
		defer w.close()
		w.checkContent = true
		n := rapid.IntRange(1, 3).Draw(rt, "nobjs")
		for i := 0; i < n; i++ {
			w.addObject(rapid.SampledFrom(c02Kinds).Draw(rt, "kind"))
		}
		deadlineHits := 0
		pickObj := func(lbl string) *wobj { return w.objs[rapid.IntRange(0, len(w.objs)-1).Draw(rt, lbl)] }
		readSizes := rapid.SampledFrom([]int{1, 2, 100, 4096, 65536, 70001, 300000})
		writeSizes := rapid.SampledFrom([]int{1, 2, 100, 4096, 65536, 70001, 300000, 2 << 20})
		start := func(rt *rapid.T, deep bool) {
			o := pickObj("o")
			kind := rapid.SampledFrom([]string{"read", "readAll", "readAll", "write", "writeAll", "writeAll"}).Draw(rt, "kind")
			size := readSizes.Draw(rt, "rsize")
			if kind == "write" || kind == "writeAll" {
				size = writeSizes.Draw(rt, "wsize")
			}
			if !w.canStart(o, kind) {
				rt.Skip("not startable")
			}
			var prog []whop
			if rapid.Bool().Draw(rt, "reissue") {
				prog = []whop{{Kind: "reissue", Target: -1}}
			}
			if deep {
				w.atDepth(32, func() { w.startOp(o, kind, size, prog, "deep") })
			} else {
				w.startOp(o, kind, size, prog, "top")
			}
		}
		rt.Repeat(map[string]func(*rapid.T){
			"start":     func(rt *rapid.T) { start(rt, false) },
			"start2":    func(rt *rapid.T) { start(rt, false) },
			"startDeep": func(rt *rapid.T) { start(rt, true) },
			"deadlineWrite": func(rt *rapid.T) {
				o := pickObj("o")
				if o.kind != kAdTCP || rapid.IntRange(0, 2).Draw(rt, "really") != 0 {
					rt.Skip("adapters over TCP only, rarely")
				}
				if p := w.deadlineWrite(o, rapid.SampledFrom([]int{4 << 20, 12 << 20}).Draw(rt, "size"), "top"); p != nil && p.err != nil && p.n > 0 {
					deadlineHits++
				}
			},
			"peerWrite": func(rt *rapid.T) {
				w.peerWrite(pickObj("o"), rapid.SampledFrom([]int{1, 3, 100, 1000, 4096, 30000, 70000, 400000}).Draw(rt, "k"))
			},
			"peerDrain": func(rt *rapid.T) {
				w.peerDrain(pickObj("o"), rapid.SampledFrom([]int{1, 100, 5000, 65536, 1 << 20}).Draw(rt, "k"))
			},
			"poll":  func(rt *rapid.T) { w.pollOnce() },
			"poll2": func(rt *rapid.T) { w.pollOnce() },
			"":      func(rt *rapid.T) { w.checkNow() },
		})
		w.checkNow()
		w.drain()
		w.checkNow()
		// everything the writes reported must have reached the peer, and nothing else
		for _, o := range w.objs {
			for i := 0; i < 1000; i++ {
				if w.peerDrain(o, 1<<20) == 0 {
					if o.peerRead >= o.wrOff {
						break
					}
					// in flight on loopback: wait for it
					if !sysxWaitReadable(o.peer, 200) {
						break
					}
				}
			}
			w.checkNow()
			if !o.wrErrored && o.peerRead != o.wrOff {
				rt.Fatalf("%s: completed writes reported %d bytes in total, the peer received %d; trace=%v", o.name(), o.wrOff, o.peerRead, w.trace)
			}
			if o.wrErrored && o.peerRead < o.wrOff {
				rt.Fatalf("%s: writes reported %d bytes but the peer only received %d; trace=%v", o.name(), o.wrOff, o.peerRead, w.trace)
			}
		}
		multi := false
		for _, p := range w.ops {
			if (p.kind == "readAll" || p.kind == "writeAll") && p.calls == 1 && p.err == nil && p.phase == "poll" && p.depthAt < 32 {
				multi = true
			}
		}
		nt := multi || w.bothDirs
		var cls []string
		if multi {
			cls = append(cls, "all-op-needed-several-transfers")
		}
		if w.bothDirs {
			cls = append(cls, "read+write-in-flight")
		}
		if w.deepIssue {
			cls = append(cls, "issued-at-dispatch-limit")
		}
		if deadlineHits > 0 {
			cls = append(cls, "adapter-write-failed-with-partial-count")
		}
		var kinds []string
		for _, o := range w.objs {
			kinds = append(kinds, string(o.kind))
		}
		rec.Case(strings.Join(kinds, "+")+"|"+strings.Join(w.trace, ","), nt, cls, map[string]any{"objects": kinds, "trace": w.trace})
	})
}
