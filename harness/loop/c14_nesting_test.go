package loop

// C14 — inline completions never nest deeper than the dispatch limit.

import (
	"bytes"
	"errors"
	"fmt"
	"strings"
	"syscall"
	"testing"

	"github.com/talostrading/sonic"
	"github.com/talostrading/sonic/sonicerrors"
	"pgregory.net/rapid"
	"verif/internal/evid"
	"verif/internal/known"
	"verif/internal/sysx"
	"verif/internal/vt"
)

var c14Kinds = []objKind{kTCPDial, kTCPAcc, kFifoR, kFifoW, kRegFile, kListener, kPacket, kMcast}

type link struct {
	obj  int
	kind string
	size int
}

func TestC14_NestingBound(t *testing.T) {
	rec := evid.For("C14")
	rec.SetRule("rapid: chains of 1..200 immediately completable operations, each issued from the completion callback of the previous one, over a generated mix of objects on one IO (conn read with data buffered, conn write with buffer space, FIFO read/write, regular-file read, accept with queued connections, datagram read with queued datagrams, datagram write, multicast-peer read/write; every datagram object writes to two receivers, the destination varies from link to link); oracle: harness nesting counter (incremented on callback entry, decremented on exit) never exceeds MaxCallbackDispatch+1, every link (inline or deferred) yields the result it must have by construction (byte content at the running offset, n, accepted peer address, datagram bytes and sender, written datagrams arrive at the receiver they were addressed to in order), IO.Dispatched==0 whenever the stack is unwound, the chain finishes within len/32+2 PollOne calls; non-trivial = chain longer than 33 links mixing >=3 object kinds with the deferred link landing on a non-socket descriptor at least once; distinct = hash of the chain")
	regKnown := known.Listed("C14", "regular-file-deferred")
	vt.Check(t, 200, func(rt *rapid.T) {
		w := newWorld(rt)
		defer w.close()
		w.checkContent = true
		w.quiesce = true // no handler programs: the chain drives everything
		nobj := rapid.IntRange(1, 5).Draw(rt, "nobjs")
		for i := 0; i < nobj; i++ {
			w.addObject(rapid.SampledFrom(c14Kinds).Draw(rt, "kind"))
		}
		L := rapid.OneOf(rapid.IntRange(1, 200), rapid.IntRange(34, 120)).Draw(rt, "len")
		chain := make([]link, L)
		excluded := 0
		for i := range chain {
			o := w.objs[rapid.IntRange(0, len(w.objs)-1).Draw(rt, "o")]
			deferredSlot := i >= 32 && (i-32)%33 == 0
			if regKnown && deferredSlot && o.kind == kRegFile {
				// recorded finding: a regular file cannot be handed to epoll. Steer the deferred link elsewhere.
				excluded++
				for _, alt := range w.objs {
					if alt.kind != kRegFile {
						o = alt
					}
				}
				if o.kind == kRegFile {
					o = w.addObject(kFifoR)
				}
			}
			ks := opKindsFor(o.kind)
			kind := ks[rapid.IntRange(0, len(ks)-1).Draw(rt, "k")]
			if kind == "readAll" || kind == "writeAll" {
				// *All links stay immediately completable because everything they need is buffered
			}
			size := rapid.IntRange(1, 24).Draw(rt, "size")
			if o.kind.stream() && rapid.IntRange(0, 7).Draw(rt, "empty") == 0 {
				// an empty buffer is legal: the operation completes at once (as end-of-file) and must be counted like any other
				size = 0
			}
			chain[i] = link{obj: o.id, kind: kind, size: size}
		}
		// prepare: everything every link needs is already in the kernel
		need := map[int]int{}
		accepts := map[int]int{}
		dgrams := map[int][]int{}
		for _, l := range chain {
			switch l.kind {
			case "read", "readAll":
				need[l.obj] += l.size
			case "accept":
				accepts[l.obj]++
			case "readFrom":
				dgrams[l.obj] = append(dgrams[l.obj], l.size)
			}
		}
		for _, l := range chain {
			if l.size == 0 && (l.kind == "read" || l.kind == "readAll") {
				need[l.obj] += 0
				if _, ok := need[l.obj]; !ok {
					need[l.obj] = 0
				}
			}
		}
		for id, n := range need {
			o := w.objs[id]
			if o.kind == kRegFile {
				continue
			}
			n++ // one spare byte keeps the descriptor readable for an empty read that lands on the deferred slot
			if got := w.peerWrite(o, n); got != n {
				rt.Fatalf("INFRA: could only buffer %d of %d bytes for %s", got, n, o.name())
			}
		}
		clientAddrs := map[int][]string{}
		for id, n := range accepts {
			o := w.objs[id]
			for i := 0; i < n; i++ {
				w.peerConnect(o)
				c := o.clients[len(o.clients)-1]
				ip, port, _ := sysx.LocalAddr4(c)
				clientAddrs[id] = append(clientAddrs[id], fmt.Sprintf("%s:%d", ip, port))
			}
		}
		for id, sizes := range dgrams {
			o := w.objs[id]
			sysx.SetBuf(o.rawFd, 0, 1<<20)
			for _, sz := range sizes {
				// the read buffer of the link has exactly the datagram's size
				w.peerSend(o, sz)
			}
		}
		w.checkNow()
		// run the chain
		next := 0
		var results []*wop
		var issue func(from string)
		issue = func(from string) {
			if next >= len(chain) {
				return
			}
			idx := next
			l := chain[idx]
			next++
			results = append(results, nil)
			w.linkHook = func(p *wop) { results[idx] = p }
			p := w.startOp(w.objs[l.obj], l.kind, l.size, nil, from)
			if p == nil {
				w.fail("link %d (%s on %s) could not be started", idx, l.kind, w.objs[l.obj].name())
				return
			}
		}
		w.onComplete = func(p *wop) {
			if w.depth > sonic.MaxCallbackDispatch+1 {
				w.fail("completion callbacks nested %d deep at link %d (limit MaxCallbackDispatch+1 = %d)", w.depth, len(results)-1, sonic.MaxCallbackDispatch+1)
				return
			}
			issue("chain")
		}
		issue("top")
		polls := 0
		maxPolls := L/32 + 2
		deferredOn := map[objKind]bool{}
		for w.problem == "" {
			if w.ioc.Dispatched != 0 {
				w.fail("IO.Dispatched=%d with the stack unwound (after %d links)", w.ioc.Dispatched, len(results))
				break
			}
			fl := w.inflight()
			if len(fl) == 0 && next >= len(chain) {
				break
			}
			if len(fl) == 0 {
				w.fail("chain stopped after %d of %d links with nothing in flight", next, len(chain))
				break
			}
			for _, p := range fl {
				deferredOn[p.o.kind] = true
				// settle: the deferred link's descriptor is ready (everything was buffered beforehand)
				ev := int16(sysx.POLLIN)
				if p.kind == "write" || p.kind == "writeAll" || p.kind == "writeTo" {
					ev = sysx.POLLOUT
				}
				if p.o.kind != kRegFile {
					if r, _ := sysx.PollFd(p.o.rawFd, ev, 1000); r == 0 {
						if ev == sysx.POLLIN && sysx.Unread(p.o.rawFd) == 0 {
							// everything this chain reads was put into the kernel before it started: if nothing is left for the
							// deferred link, what it was to receive has been taken from the socket and given to nobody
							w.fail("deferred link #%d (%s on %s, issued at depth %d) has nothing left to read although its data was queued before the chain started: the bytes/datagram were consumed when the operation was deferred and never delivered", p.id, p.kind, p.o.name(), p.depthAt)
						} else {
							w.infraf("deferred link #%d (%s on %s) never became ready", p.id, p.kind, p.o.name())
						}
					}
				}
			}
			if polls >= maxPolls {
				w.fail("chain of %d links not finished after %d PollOne calls (allowed %d); %d links done, link #%d (%s on %s) still in flight", L, polls, maxPolls, next, fl[0].id, fl[0].kind, fl[0].o.name())
				break
			}
			w.pollOnce()
			polls++
			w.checkNow()
		}
		w.checkNow()
		if w.maxDepth > sonic.MaxCallbackDispatch+1 {
			rt.Fatalf("completion callbacks nested %d deep (limit %d); chain=%v", w.maxDepth, sonic.MaxCallbackDispatch+1, chain)
		}
		// every link has the result it must have
		acc := map[int]int{}
		dg := map[int]int{}
		for i, p := range results {
			l := chain[i]
			o := p.o
			if p.calls != 1 {
				rt.Fatalf("link %d (%s on %s) completed %d times", i, l.kind, o.name(), p.calls)
			}
			if l.size == 0 {
				// an empty read/write reports zero bytes (the library says end-of-file); only exactly-once and nesting matter
				if p.n != 0 {
					rt.Fatalf("link %d (empty %s on %s) reported n=%d", i, l.kind, o.name(), p.n)
				}
				continue
			}
			if p.err != nil {
				rt.Fatalf("link %d (%s on %s, %s, issued at depth %d) failed with %v although it was immediately completable; chain length %d", i, l.kind, o.name(), p.phase, p.depthAt, p.err, L)
			}
			switch l.kind {
			case "read", "readAll", "write", "writeAll":
				if p.n != l.size {
					rt.Fatalf("link %d (%s on %s, %s): n=%d, want %d", i, l.kind, o.name(), p.phase, p.n, l.size)
				}
			case "accept":
				want := clientAddrs[o.id][acc[o.id]]
				acc[o.id]++
				if p.conn == nil || p.conn.RemoteAddr() == nil || p.conn.RemoteAddr().String() != want {
					var got any
					if p.conn != nil {
						got = p.conn.RemoteAddr()
					}
					rt.Fatalf("link %d (accept on %s, %s): accepted peer %v, want %s", i, o.name(), p.phase, got, want)
				}
			case "readFrom":
				want := o.dgramsSent[dg[o.id]]
				dg[o.id]++
				if p.n != len(want) || !bytes.Equal(p.buf[:p.n], want) {
					rt.Fatalf("link %d (readFrom on %s, %s): got %d bytes %x, want datagram %x", i, o.name(), p.phase, p.n, p.buf[:p.n], want)
				}
				if p.addr == nil || p.addr.String() != o.peerUDP.String() {
					rt.Fatalf("link %d (readFrom on %s, %s): sender %v, want %v", i, o.name(), p.phase, p.addr, o.peerUDP)
				}
			case "writeTo":
				buf := make([]byte, 2048)
				// each receiver gets the datagrams addressed to it, in order (destinations vary from link to link)
				if !sysx.WaitReadable(p.dstFd, 300) {
					other := o.peer
					if p.dstFd == o.peer {
						other = o.peer2
					}
					rt.Fatalf("link %d (writeTo on %s, %s, issued at depth %d): the datagram never reached the receiver it was addressed to (the other receiver of this object has %d unread bytes)", i, o.name(), p.phase, p.depthAt, sysx.Unread(other))
				}
				n, _, err := syscall.Recvfrom(p.dstFd, buf, 0)
				if err != nil || !bytes.Equal(buf[:n], p.buf) {
					rt.Fatalf("link %d (writeTo on %s, %s, issued at depth %d): the addressed receiver got %x (err %v), want %x", i, o.name(), p.phase, p.depthAt, buf[:max(n, 0)], err, p.buf)
				}
			}
		}
		// the written streams arrived intact
		for _, o := range w.objs {
			if o.kind.stream() && o.canWrite && o.kind != kRegFile {
				for w.peerDrain(o, 1<<20) > 0 {
				}
				if o.peerRead != o.wrOff {
					sysx.WaitReadable(o.peer, 200)
					for w.peerDrain(o, 1<<20) > 0 {
					}
				}
				if o.peerRead != o.wrOff {
					rt.Fatalf("%s: writes reported %d bytes, peer received %d", o.name(), o.wrOff, o.peerRead)
				}
			}
		}
		w.checkNow()
		rec.ExcludedKnown(excluded)
		kinds := map[objKind]bool{}
		for _, l := range chain {
			kinds[w.objs[l.obj].kind] = true
		}
		nonSocketDeferred := deferredOn[kFifoR] || deferredOn[kFifoW] || deferredOn[kRegFile]
		nt := L > 33 && len(kinds) >= 3 && nonSocketDeferred
		var cls []string
		if L > 33 {
			cls = append(cls, "chain>33")
		}
		if len(kinds) >= 3 {
			cls = append(cls, ">=3-object-kinds")
		}
		if nonSocketDeferred {
			cls = append(cls, "deferred-link-on-non-socket")
		}
		var ks []string
		for _, o := range w.objs {
			ks = append(ks, string(o.kind))
		}
		var cs []string
		for _, l := range chain {
			cs = append(cs, fmt.Sprintf("o%d.%s(%d)", l.obj, l.kind, l.size))
		}
		rec.Case(strings.Join(ks, "+")+"|"+strings.Join(cs, ","), nt, cls, map[string]any{"objects": ks, "chain_len": L, "chain_head": cs[:min(len(cs), 40)], "polls": polls, "max_depth": w.maxDepth})
	})
}

// Probe of the recorded root cause: at the dispatch limit a regular file is
// handed to epoll, which refuses it.
func TestC14_ProbeRegularFileDeferred(t *testing.T) {
	rapid.Check(t, func(rt *rapid.T) {
		w := newWorld(rt)
		defer w.close()
		w.quiesce = true
		o := w.addObject(kRegFile)
		var p *wop
		w.atDepth(32, func() { p = w.startOp(o, "read", 8, nil, "deep") })
		for i := 0; i < 3 && p.calls == 0; i++ {
			w.pollOnce()
		}
		reproduced := p.calls == 1 && p.err != nil
		if p.calls != 1 {
			rt.Fatalf("read of a regular file issued at the dispatch limit completed %d times", p.calls)
		}
		known.Probe(t, "C14", "regular-file-deferred", reproduced, fmt.Sprintf("AsyncRead on a regular file issued at the dispatch limit completes with %q instead of the bytes it reads inline (epoll cannot poll regular files)", fmt.Sprint(p.err)))
	})
}

// withFullFdTable fills the descriptor table (RLIMIT_NOFILE lowered, every free slot taken by /dev/null) while fn runs:
// every descriptor allocation inside fn fails with EMFILE.
func withFullFdTable(fn func()) error {
	var old syscall.Rlimit
	if err := syscall.Getrlimit(syscall.RLIMIT_NOFILE, &old); err != nil {
		return err
	}
	maxFd := 0
	for fd := range sysx.FdCensus() {
		if fd > maxFd {
			maxFd = fd
		}
	}
	if err := syscall.Setrlimit(syscall.RLIMIT_NOFILE, &syscall.Rlimit{Cur: uint64(maxFd + 32), Max: old.Max}); err != nil {
		return err
	}
	var fillers []int
	for {
		fd, err := syscall.Dup(devNull)
		if err != nil {
			break
		}
		fillers = append(fillers, fd)
	}
	defer func() {
		for _, fd := range fillers {
			_ = syscall.Close(fd)
		}
		_ = syscall.Setrlimit(syscall.RLIMIT_NOFILE, &old)
	}()
	fn()
	return nil
}

// Chains of operations that complete immediately WITH AN ERROR and are re-issued from their own callbacks: accept
// while the descriptor table is full (EMFILE), reads at end-of-file (peer closed / FIFO writer gone), writes on a
// reset connection. They are immediate completions like any other: counted, bounded, deferred at the limit.
func TestC14_ErrorChains(t *testing.T) {
	rec := evid.For("C14")
	vt.Check(t, 60, func(rt *rapid.T) {
		w := newWorld(rt)
		defer w.close()
		w.quiesce = true
		w.writeAfterError = true
		kind := rapid.SampledFrom([]string{"accept-emfile", "read-eof-tcp", "read-eof-fifo", "write-after-reset", "mixed"}).Draw(rt, "kind")
		L := rapid.IntRange(34, 150).Draw(rt, "len")
		var objs []*wobj
		var kinds []string
		add := func(k objKind, opk string) {
			o := w.addObject(k)
			switch opk {
			case "accept":
				w.peerConnect(o)
			case "read":
				w.peerFault(o, "close")
			case "write":
				w.peerFault(o, "reset")
				// let the RST arrive
				for i := 0; i < 50; i++ {
					if r, _ := sysx.PollFd(o.rawFd, sysx.POLLIN|sysx.POLLOUT, 10); r&(sysx.POLLERR|sysx.POLLHUP) != 0 {
						break
					}
				}
			}
			objs = append(objs, o)
			kinds = append(kinds, opk)
		}
		switch kind {
		case "accept-emfile":
			add(kListener, "accept")
		case "read-eof-tcp":
			add(kTCPDial, "read")
		case "read-eof-fifo":
			add(kFifoR, "read")
		case "write-after-reset":
			add(kTCPDial, "write")
		default:
			add(kListener, "accept")
			add(kTCPAcc, "read")
			add(kFifoR, "read")
		}
		w.checkNow()
		done := 0
		errs := 0
		var issue func()
		issue = func() {
			if done+len(w.inflight()) >= L {
				return
			}
			i := rapid.IntRange(0, len(objs)-1).Draw(rt, "pick")
			p := w.startOp(objs[i], kinds[i], 8, nil, "chain")
			if p == nil {
				w.fail("link on %s could not be started", objs[i].name())
			}
		}
		w.onComplete = func(p *wop) {
			done++
			if p.err != nil {
				errs++
			}
			if w.depth > sonic.MaxCallbackDispatch+1 {
				w.fail("completion callbacks nested %d deep in a chain of immediately failing %s operations (limit MaxCallbackDispatch+1 = %d)", w.depth, p.kind, sonic.MaxCallbackDispatch+1)
				return
			}
			issue()
		}
		run := func() {
			issue()
			for polls := 0; w.problem == "" && done < L; polls++ {
				if w.ioc.Dispatched != 0 {
					w.fail("IO.Dispatched=%d with the stack unwound", w.ioc.Dispatched)
					break
				}
				if len(w.inflight()) == 0 {
					w.fail("chain stopped after %d of %d links", done, L)
					break
				}
				if polls > L/32+3 {
					w.fail("chain of %d immediately failing operations not finished after %d PollOne calls (%d done)", L, polls, done)
					break
				}
				for _, p := range w.inflight() {
					sysx.PollFd(p.o.rawFd, sysx.POLLIN|sysx.POLLOUT, 200)
				}
				w.pollOnce()
			}
		}
		if kind == "accept-emfile" || kind == "mixed" {
			if err := withFullFdTable(run); err != nil {
				rt.Fatalf("INFRA: rlimit: %v", err)
			}
		} else {
			run()
		}
		w.checkNow()
		if w.maxDepth > sonic.MaxCallbackDispatch+1 {
			rt.Fatalf("completion callbacks nested %d deep (limit %d) in a %s chain of %d links", w.maxDepth, sonic.MaxCallbackDispatch+1, kind, L)
		}
		if w.ioc.Dispatched != 0 {
			rt.Fatalf("IO.Dispatched=%d after the chain", w.ioc.Dispatched)
		}
		if errs == 0 {
			rt.Fatalf("INFRA: no link of the %s chain failed: the fault was not in place", kind)
		}
		rec.Case(fmt.Sprintf("err|%s|%d", kind, L), true, []string{"error-chain:" + kind}, map[string]any{"kind": kind, "chain_len": L, "failed_links": errs, "max_depth": w.maxDepth})
	})
}

// TestC14_DeferredFromInsideAChain: an operation that cannot complete at once (write into a full socket buffer, read
// with nothing buffered) is started from inside k nested inline completions; the stack unwinds, and the poller
// completes it later. The depth accounting must be back to zero after the unwind and after that late completion, and a
// chain run afterwards must get the same number of inline completions as one run before.
func TestC14_DeferredFromInsideAChain(t *testing.T) {
	rec := evid.For("C14")
	vt.Check(t, 120, func(rt *rapid.T) {
		ioc, err := sonic.NewIO()
		if err != nil {
			rt.Fatalf("INFRA: NewIO: %v", err)
		}
		defer ioc.Close()
		ln, err := sysx.ListenTCP()
		if err != nil {
			rt.Fatalf("INFRA: listen: %v", err)
		}
		defer ln.Close()
		mk := func() (sonic.Conn, int) {
			c, err := sonic.Dial(ioc, "tcp", ln.Addr())
			if err != nil {
				rt.Fatalf("INFRA: dial: %v", err)
			}
			p, err := ln.Accept(2000)
			if err != nil {
				_ = c.Close()
				rt.Fatalf("INFRA: accept: %v", err)
			}
			return c, p
		}
		a, ap := mk() // carries the inline chain: one-byte writes into an almost empty socket buffer
		b, bp := mk() // the side object
		defer func() {
			_ = a.Close()
			_ = b.Close()
			sysx.Reset(ap)
			sysx.Reset(bp)
		}()
		depth, maxDepth := 0, 0
		var trace []string
		// chain runs n one-byte writes on a, each from the callback of the previous one; at nesting depth `at` it calls side.
		chain := func(n, at int, side func()) (inline int) {
			issued := 0
			stackAlive := true
			var step func()
			step = func() {
				if issued >= n {
					return
				}
				issued++
				a.AsyncWrite([]byte{byte(issued)}, func(err error, _ int) {
					depth++
					if depth > maxDepth {
						maxDepth = depth
					}
					if err != nil {
						rt.Fatalf("chain write failed: %v; trace=%v", err, trace)
					}
					if stackAlive {
						inline++
					}
					if depth == at && side != nil {
						side()
						side = nil
					}
					step()
					depth--
				})
			}
			step()
			stackAlive = false
			for i := 0; i < 20 && issued < n || ioc.Pending() > 0 && i < 20; i++ {
				sysx.WaitWritable(a.RawFd(), 50)
				_, _ = ioc.PollOne()
			}
			_ = sysx.ReadSome(ap, 1<<20)
			return inline
		}
		unwound := func(when string) {
			if ioc.Dispatched != 0 {
				rt.Fatalf("IO.Dispatched=%d with the stack unwound (%s); trace=%v", ioc.Dispatched, when, trace)
			}
		}
		ref := chain(40, -1, nil)
		trace = append(trace, fmt.Sprintf("reference chain: %d of 40 inline", ref))
		unwound("after the reference chain")
		if ref < 1 {
			rt.Fatalf("INFRA: reference chain had no inline completion")
		}
		episodes := rapid.IntRange(1, 3).Draw(rt, "episodes")
		for e := 0; e < episodes; e++ {
			kind := rapid.SampledFrom([]string{"write", "writeAll", "read", "readAll"}).Draw(rt, "sideKind")
			// (the deepest inline callback issues at the dispatch limit: the operation is then handed to the poller because
			// of the limit, not because it would block)
			at := rapid.OneOf(rapid.IntRange(1, ref), rapid.Just(ref)).Draw(rt, "depth")
			sideCalls, sideDepth, sideN := 0, 0, 0
			sideCb := func(err error, n int) {
				sideCalls++
				sideN = n
				depth++
				sideDepth = depth
				if depth > maxDepth {
					maxDepth = depth
				}
				depth--
				trace = append(trace, fmt.Sprintf("cb:side(%v,%d) at harness depth %d", err, n, sideDepth))
			}
			isWrite := kind == "write" || kind == "writeAll"
			if isWrite { // fill b's send buffer so that the write cannot be taken
				junk := make([]byte, 1<<16)
				for i := 0; i < 4096; i++ {
					if n, err := syscall.Write(b.RawFd(), junk); err != nil || n <= 0 {
						break
					}
				}
			}
			// cancelled: the side operation is already waiting in the poller when the chain starts, and the callback at
			// depth `at` cancels it (as a websocket client dropping its transport from a message handler does); its
			// callback then runs synchronously on top of the chain's frames.
			cancelled := rapid.IntRange(0, 2).Draw(rt, "cancelFromChain") == 0
			var sideErr error
			issue := func() {
				buf := make([]byte, 3000)
				cb := func(err error, n int) { sideErr = err; sideCb(err, n) }
				switch kind {
				case "write":
					b.AsyncWrite(buf, cb)
				case "writeAll":
					b.AsyncWriteAll(buf, cb)
				case "read":
					b.AsyncRead(buf[:8], cb)
				default:
					b.AsyncReadAll(buf[:8], cb)
				}
				if sideCalls != 0 {
					rt.Fatalf("INFRA: the side %s completed inline", kind)
				}
			}
			if cancelled {
				issue()
				n := rapid.IntRange(at, 40).Draw(rt, "len")
				got := chain(n, at, func() {
					b.Cancel()
					if sideCalls != 1 || !errors.Is(sideErr, sonicerrors.ErrCancelled) {
						rt.Fatalf("Cancel from depth %d: the pending %s completed %d times with %v; trace=%v", at, kind, sideCalls, sideErr, trace)
					}
				})
				trace = append(trace, fmt.Sprintf("episode %d: pending side %s cancelled at depth %d of a %d-link chain (%d inline)", e, kind, at, n, got))
				unwound("after a chain that cancelled another object's pending operation")
				if got != min(n, ref) {
					rt.Fatalf("a %d-link chain whose callback at depth %d cancelled another object's pending %s got %d inline completions; a plain chain gets %d; trace=%v", n, at, kind, got, min(n, ref), trace)
				}
				_ = sysx.ReadSome(bp, 1<<20)
				again := chain(40, -1, nil)
				trace = append(trace, fmt.Sprintf("chain afterwards: %d of 40 inline", again))
				if again != ref {
					rt.Fatalf("a 40-link chain gets %d inline completions now, it got %d before a pending operation was cancelled from depth %d; trace=%v", again, ref, at, trace)
				}
				unwound("after the follow-up chain")
				continue
			}
			side := func() {
				buf := make([]byte, 3000)
				switch kind {
				case "write":
					b.AsyncWrite(buf, sideCb)
				case "writeAll":
					b.AsyncWriteAll(buf, sideCb)
				case "read":
					b.AsyncRead(buf[:8], sideCb)
				default:
					b.AsyncReadAll(buf[:8], sideCb)
				}
				if sideCalls != 0 {
					rt.Fatalf("INFRA: the side %s completed inline", kind)
				}
			}
			n := rapid.IntRange(at, 40).Draw(rt, "len")
			got := chain(n, at, side)
			trace = append(trace, fmt.Sprintf("episode %d: side %s issued at depth %d of a %d-link chain (%d inline)", e, kind, at, n, got))
			unwound("after a chain that left a deferred operation behind")
			// now make the side operation completable
			if isWrite {
				for i := 0; i < 200 && sideCalls == 0; i++ {
					_ = sysx.ReadSome(bp, 1<<20)
					sysx.WaitWritable(b.RawFd(), 20)
					_, _ = ioc.PollOne()
				}
			} else {
				// the bytes arrive in two parts: a plain read completes with the first, a ReadAll only with both
				_ = sysx.WriteSome(bp, []byte("1234"))
				for i := 0; i < 200 && sideCalls == 0 && (kind == "read" || i < 3); i++ {
					sysx.WaitReadable(b.RawFd(), 20)
					_, _ = ioc.PollOne()
				}
				if kind == "readAll" {
					if sideCalls != 0 {
						rt.Fatalf("AsyncReadAll of 8 bytes issued at depth %d completed (n=%d) when 4 bytes had arrived: it did not keep the result it would have had inline; trace=%v", at, sideN, trace)
					}
					_ = sysx.WriteSome(bp, []byte("5678"))
					for i := 0; i < 200 && sideCalls == 0; i++ {
						sysx.WaitReadable(b.RawFd(), 20)
						_, _ = ioc.PollOne()
					}
				}
			}
			want := map[string]int{"read": 4, "readAll": 8, "writeAll": 3000}[kind]
			if sideCalls == 1 && want > 0 && sideN != want {
				rt.Fatalf("the deferred %s issued at depth %d completed with n=%d, want %d; trace=%v", kind, at, sideN, want, trace)
			}
			if sideCalls != 1 {
				rt.Fatalf("the deferred %s completed %d times after it was made completable; trace=%v", kind, sideCalls, trace)
			}
			if sideDepth != 1 {
				rt.Fatalf("the poller ran the deferred %s's callback with %d callbacks on the stack; trace=%v", kind, sideDepth, trace)
			}
			unwound("after the poller completed the deferred operation")
			_ = sysx.ReadSome(bp, 1<<20)
			again := chain(40, -1, nil)
			trace = append(trace, fmt.Sprintf("chain afterwards: %d of 40 inline", again))
			if again != ref {
				rt.Fatalf("a 40-link chain gets %d inline completions now, it got %d before an operation was deferred from depth %d and completed by the poller: the depth accounting did not return to zero; trace=%v", again, ref, at, trace)
			}
			unwound("after the follow-up chain")
		}
		if maxDepth > sonic.MaxCallbackDispatch+1 {
			rt.Fatalf("callbacks nested %d deep; trace=%v", maxDepth, trace)
		}
		rec.Case("deferredinside:"+strings.Join(trace, ";"), true, []string{"deferred-from-inside-a-chain"}, map[string]any{"trace": trace, "inline_per_chain": ref})
	})
}
