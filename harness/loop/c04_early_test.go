package loop

// C04, "never before the requested delay has elapsed", observed sharply: the loop blocks in the poller across the
// deadline, so the callback runs as soon as the kernel reports the expiry and not at the harness's next poll. Delays are
// in microseconds and mostly not whole milliseconds.

import (
	"fmt"
	"testing"
	"time"

	"github.com/talostrading/sonic"
	"pgregory.net/rapid"
	"verif/internal/evid"
	"verif/internal/vt"
)

func TestC04_NeverEarlyBlockedLoop(t *testing.T) {
	rec := evid.For("C04")
	rec.SetRule("never-early with a blocked loop: one timer, ScheduleOnce or ScheduleRepeating with a delay of 100..6000 us (mostly fractional milliseconds), the loop blocks in RunOneFor until 1..3 callbacks ran; every callback must run at least delay-50us after the scheduling call (once, first tick) or after the previous callback (repeating), and must run within 2 s; non-trivial = a delay that is not a whole number of milliseconds")
	vt.Check(t, 150, func(rt *rapid.T) {
		ioc, err := sonic.NewIO()
		if err != nil {
			rt.Fatalf("INFRA: NewIO: %v", err)
		}
		defer ioc.Close()
		tm, err := sonic.NewTimer(ioc)
		if err != nil {
			rt.Fatalf("INFRA: NewTimer: %v", err)
		}
		defer tm.Close()
		rounds := rapid.IntRange(1, 3).Draw(rt, "schedules")
		fractional := false
		var trace []string
		for r := 0; r < rounds; r++ {
			us := rapid.OneOf(rapid.IntRange(100, 6000), rapid.SampledFrom([]int{400, 499, 500, 501, 999, 1001, 1250, 1400, 1499, 1500, 1501, 1750, 2499, 2600, 3450})).Draw(rt, "delayUs")
			d := time.Duration(us) * time.Microsecond
			repeat := rapid.Bool().Draw(rt, "repeating")
			want := 1
			if repeat {
				want = rapid.IntRange(1, 3).Draw(rt, "ticks")
			}
			if us%1000 != 0 {
				fractional = true
			}
			fires := 0
			problem := ""
			var last time.Time
			cb := func() {
				now := time.Now()
				fires++
				if el := now.Sub(last); el < d-timerEpsilon && problem == "" {
					problem = fmt.Sprintf("callback #%d ran %v after %s, requested %v: early by %v", fires, el, map[bool]string{true: "the scheduling call", false: "the previous callback"}[fires == 1], d, d-el)
				}
				last = now
				if repeat && fires == want {
					if err := tm.Cancel(); err != nil {
						problem = fmt.Sprintf("Cancel from the callback failed: %v", err)
					}
				}
			}
			last = time.Now()
			if repeat {
				err = tm.ScheduleRepeating(d, cb)
			} else {
				err = tm.ScheduleOnce(d, cb)
			}
			if err != nil {
				rt.Fatalf("Schedule(%v) on an idle timer failed: %v; trace=%v", d, err, trace)
			}
			began := time.Now()
			for fires < want && problem == "" {
				_ = ioc.RunOneFor(50 * time.Millisecond)
				if time.Since(began) > 2*time.Second {
					rt.Fatalf("schedule of %v (repeating=%v): %d of %d callbacks ran within 2 s of a loop blocked in RunOneFor; trace=%v", d, repeat, fires, want, trace)
				}
			}
			trace = append(trace, fmt.Sprintf("%v repeating=%v ticks=%d", d, repeat, fires))
			if problem != "" {
				rt.Fatalf("%s; trace=%v", problem, trace)
			}
			if tm.Scheduled() {
				rt.Fatalf("Scheduled() is true after the schedule of %v ended; trace=%v", d, trace)
			}
		}
		rec.Case(fmt.Sprintf("early|%v", trace), fractional, []string{"blocked-loop-never-early"}, map[string]any{"trace": trace})
	})
}
