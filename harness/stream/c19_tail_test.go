package stream

// C19, the end of the stream: the writer sends its last items and closes before the reader has drained them, so the
// peer's end-of-stream is already queued behind the bytes when the reader gets to them. Every item written must still
// be returned, in order, before the reader is told that the stream has ended.

import (
	"bytes"
	"encoding/binary"
	"fmt"
	"io"
	"syscall"
	"testing"
	"time"

	"github.com/talostrading/sonic"
	"github.com/talostrading/sonic/codec/frame"
	"github.com/talostrading/sonic/sonicerrors"
	"pgregory.net/rapid"
	"verif/internal/evid"
	"verif/internal/sysx"
	"verif/internal/vt"
)

func TestC19_TailBeforeClose(t *testing.T) {
	rec := evid.For("C19")
	rec.SetRule("tail before close: a raw peer writes 1..60 length-prefixed items (0..600 bytes, or a few of 2000..9000) in 1..4 segments and then closes (FIN) or shuts down writing, all before the reader starts; the reader (sonic.Dial conn + CodecConn with the frame codec) then reads with AsyncReadNext (re-armed from the callback or from the top level, polling in between) or with the blocking ReadNext until it is told the stream ended; every item must be returned byte-identical and in order before that; non-trivial = at least 2 items with the end-of-stream queued behind them")
	vt.Check(t, 60, func(rt *rapid.T) {
		ioc, err := sonic.NewIO()
		if err != nil {
			rt.Fatalf("INFRA: NewIO: %v", err)
		}
		defer ioc.Close()
		ln, err := sysx.ListenTCP()
		if err != nil {
			rt.Fatalf("INFRA: listen: %v", err)
		}
		defer ln.Close()
		conn, err := sonic.Dial(ioc, "tcp", ln.Addr())
		if err != nil {
			rt.Fatalf("INFRA: dial: %v", err)
		}
		defer conn.Close()
		peer, err := ln.Accept(2000)
		if err != nil {
			rt.Fatalf("INFRA: accept: %v", err)
		}
		peerOpen := true
		defer func() {
			if peerOpen {
				_ = syscall.Close(peer)
			}
		}()
		n := rapid.IntRange(1, 60).Draw(rt, "nitems")
		var items [][]byte
		var wire []byte
		for i := 0; i < n; i++ {
			ln := rapid.OneOf(rapid.IntRange(0, 40), rapid.IntRange(0, 600), rapid.SampledFrom([]int{0, 1, 2000, 4092, 4096, 9000})).Draw(rt, "len")
			b := make([]byte, ln)
			for j := range b {
				b[j] = byte(i*13 + j*7 + 1)
			}
			items = append(items, b)
			var h [4]byte
			binary.BigEndian.PutUint32(h[:], uint32(ln))
			wire = append(wire, h[:]...)
			wire = append(wire, b...)
		}
		// the peer writes everything (in a few segments) and ends the stream before the reader does anything
		segs := rapid.IntRange(1, 4).Draw(rt, "segments")
		for k := 0; k < segs; k++ {
			lo, hi := len(wire)*k/segs, len(wire)*(k+1)/segs
			for lo < hi {
				w, err := syscall.Write(peer, wire[lo:hi])
				if err != nil {
					rt.Fatalf("INFRA: peer write: %v", err)
				}
				lo += w
			}
		}
		how := rapid.SampledFrom([]string{"close", "shutdown-write"}).Draw(rt, "end")
		if how == "close" {
			_ = syscall.Close(peer) // everything was read by nobody yet: an orderly FIN follows the data
			peerOpen = false
		} else {
			_ = syscall.Shutdown(peer, syscall.SHUT_WR)
		}
		for deadline := time.Now().Add(2 * time.Second); sysx.Unread(conn.RawFd()) < min(len(wire), 60000) && time.Now().Before(deadline); {
			time.Sleep(200 * time.Microsecond)
		}
		time.Sleep(time.Millisecond) // the FIN is right behind the last segment
		src, dst := sonic.NewByteBuffer(), sonic.NewByteBuffer()
		cc, err := sonic.NewCodecConn[[]byte, []byte](conn, frame.NewCodec(src), src, dst)
		if err != nil {
			rt.Fatalf("INFRA: NewCodecConn: %v", err)
		}
		api := rapid.SampledFrom([]string{"async-rearm-in-callback", "async-top-level", "blocking"}).Draw(rt, "api")
		got := 0
		var endErr error
		ended := false
		check := func(item []byte) {
			if got >= len(items) {
				rt.Fatalf("%s: item #%d returned, the peer wrote %d", api, got, len(items))
			}
			if !bytes.Equal(item, items[got]) {
				rt.Fatalf("%s: item #%d: got %d bytes %x.., want %d bytes %x..", api, got, len(item), head(item), len(items[got]), head(items[got]))
			}
			got++
		}
		began := time.Now()
		switch api {
		case "blocking":
			for !ended {
				item, err := cc.ReadNext()
				switch {
				case err == nil:
					check(item)
				case err == sonicerrors.ErrWouldBlock:
					sysx.WaitReadable(conn.RawFd(), 50)
				default:
					ended, endErr = true, err
				}
				if time.Since(began) > 5*time.Second {
					rt.Fatalf("%s: %d of %d items after 5 s", api, got, len(items))
				}
			}
		default:
			reading := false
			var arm func()
			arm = func() {
				reading = true
				cc.AsyncReadNext(func(err error, item []byte) {
					reading = false
					if err != nil {
						ended, endErr = true, err
						return
					}
					check(item)
					if api == "async-rearm-in-callback" {
						arm()
					}
				})
			}
			for !ended {
				if !reading {
					arm()
				}
				if reading {
					_ = ioc.RunOneFor(5 * time.Millisecond)
				}
				if time.Since(began) > 5*time.Second {
					rt.Fatalf("%s: %d of %d items after 5 s and no end of stream", api, got, len(items))
				}
			}
		}
		if got != len(items) {
			rt.Fatalf("%s: the reader was told the stream ended (%v) after %d of the %d items the peer had written before it ended the stream (%s, %d segments, %d bytes)", api, endErr, got, len(items), how, segs, len(wire))
		}
		if endErr != io.EOF {
			rt.Fatalf("%s: the stream ended with %v, want io.EOF", api, endErr)
		}
		rec.Case(fmt.Sprintf("tail|%s|%s|%d|%d|%d", api, how, n, segs, len(wire)), n >= 2, []string{"tail-before-close:" + api}, map[string]any{"api": api, "end": how, "items": n, "segments": segs, "bytes": len(wire)})
	})
}
