package stream

// C19, the end of the stream while the reader is waiting in the poller: the reader has an AsyncReadNext parked (nothing
// has arrived yet), then the peer writes its last items and goes away before the loop is polled again, so that the
// data and the hang-up reach the reader in one poller event. On a FIFO (sonic.Open) and on a UNIX socketpair the kernel
// reports that as EPOLLIN|EPOLLHUP, on TCP as EPOLLIN|EPOLLRDHUP. Every item written must still be returned,
// byte-identical and in order, before the reader is told that the stream has ended. (Added after seeded change C19-k.)

import (
	"bytes"
	"encoding/binary"
	"fmt"
	"io"
	"net"
	"os"
	"path/filepath"
	"syscall"
	"testing"
	"time"

	"github.com/talostrading/sonic"
	"github.com/talostrading/sonic/codec/frame"
	"pgregory.net/rapid"
	"verif/internal/evid"
	"verif/internal/sysx"
	"verif/internal/vt"
)

func TestC19_TailWhileParked(t *testing.T) {
	rec := evid.For("C19")
	rec.SetRule("tail while parked: the reader (CodecConn with the frame codec over a FIFO read end opened with sonic.Open, over a sonic.Dial conn, or over an AsyncAdapter on a UNIX socketpair) parks an AsyncReadNext with nothing to read, is polled once for nothing, then the raw peer writes 1..40 length-prefixed items (0..600 bytes, a few of 2000..9000; at most 60000 bytes in all so that the writes never block) in 1..3 segments and closes its end, all before the next poll: data and hang-up are delivered by one poller event; reads are re-armed from the callback or from the top level; every item must be returned byte-identical and in order before io.EOF; non-trivial = at least 2 items queued with the hang-up")
	dir := t.TempDir()
	caseNo := 0
	vt.Check(t, 60, func(rt *rapid.T) {
		caseNo++
		ioc, err := sonic.NewIO()
		if err != nil {
			rt.Fatalf("INFRA: NewIO: %v", err)
		}
		defer ioc.Close()
		transport := rapid.SampledFrom([]string{"fifo", "fifo", "tcp", "unix-adapter"}).Draw(rt, "transport")
		var stream sonic.Stream
		peer := -1
		rawFd := -1
		defer func() {
			if peer >= 0 {
				_ = syscall.Close(peer)
			}
		}()
		switch transport {
		case "fifo":
			path := filepath.Join(dir, fmt.Sprintf("f%d", caseNo))
			if err := syscall.Mkfifo(path, 0o600); err != nil {
				rt.Fatalf("INFRA: mkfifo: %v", err)
			}
			defer os.Remove(path)
			f, err := sonic.Open(ioc, path, os.O_RDONLY|syscall.O_NONBLOCK, 0)
			if err != nil {
				rt.Fatalf("INFRA: sonic.Open: %v", err)
			}
			defer f.Close()
			peer, err = syscall.Open(path, syscall.O_WRONLY|syscall.O_CLOEXEC, 0)
			if err != nil {
				rt.Fatalf("INFRA: open the write end: %v", err)
			}
			stream, rawFd = f.(sonic.Stream), f.RawFd()
		case "tcp":
			ln, err := sysx.ListenTCP()
			if err != nil {
				rt.Fatalf("INFRA: listen: %v", err)
			}
			defer ln.Close()
			conn, err := sonic.Dial(ioc, "tcp", ln.Addr())
			if err != nil {
				rt.Fatalf("INFRA: dial: %v", err)
			}
			defer conn.Close()
			peer, err = ln.Accept(2000)
			if err != nil {
				rt.Fatalf("INFRA: accept: %v", err)
			}
			stream, rawFd = conn, conn.RawFd()
		case "unix-adapter":
			fds, err := syscall.Socketpair(syscall.AF_UNIX, syscall.SOCK_STREAM|syscall.SOCK_CLOEXEC, 0)
			if err != nil {
				rt.Fatalf("INFRA: socketpair: %v", err)
			}
			peer = fds[1]
			f := os.NewFile(uintptr(fds[0]), "c19-unix")
			c, err := net.FileConn(f)
			_ = f.Close()
			if err != nil {
				rt.Fatalf("INFRA: FileConn: %v", err)
			}
			var ad *sonic.AsyncAdapter
			sonic.NewAsyncAdapter(ioc, c.(*net.UnixConn), c, func(err error, a *sonic.AsyncAdapter) {
				if err != nil {
					rt.Fatalf("INFRA: NewAsyncAdapter: %v", err)
				}
				ad = a
			})
			if ad == nil {
				rt.Fatalf("INFRA: NewAsyncAdapter did not call back")
			}
			defer func() {
				// the adapter closes the descriptor number the net.Conn still believes it owns: park /dev/null on that
				// number so that closing the net.Conn cannot hit a descriptor that was handed to someone else meanwhile
				fd := ad.RawFd()
				_ = ad.Close()
				if dn, err := syscall.Open("/dev/null", syscall.O_RDONLY|syscall.O_CLOEXEC, 0); err == nil {
					_ = syscall.Dup3(dn, fd, syscall.O_CLOEXEC)
					_ = syscall.Close(dn)
				}
				_ = c.Close()
			}()
			stream, rawFd = ad, ad.RawFd()
		}
		n := rapid.IntRange(1, 40).Draw(rt, "nitems")
		var items [][]byte
		var wire []byte
		for i := 0; i < n; i++ {
			ln := rapid.OneOf(rapid.IntRange(0, 40), rapid.IntRange(0, 600), rapid.SampledFrom([]int{0, 1, 2000, 4092, 4096, 9000})).Draw(rt, "len")
			if len(wire)+4+ln > 60000 {
				ln = 3
			}
			b := make([]byte, ln)
			for j := range b {
				b[j] = byte(i*17 + j*5 + 3)
			}
			items = append(items, b)
			var h [4]byte
			binary.BigEndian.PutUint32(h[:], uint32(ln))
			wire = append(wire, h[:]...)
			wire = append(wire, b...)
		}
		src, dst := sonic.NewByteBuffer(), sonic.NewByteBuffer()
		cc, err := sonic.NewCodecConn[[]byte, []byte](stream, frame.NewCodec(src), src, dst)
		if err != nil {
			rt.Fatalf("INFRA: NewCodecConn: %v", err)
		}
		rearm := rapid.SampledFrom([]string{"in-callback", "top-level"}).Draw(rt, "rearm")
		got := 0
		var endErr error
		ended, reading := false, false
		var arm func()
		arm = func() {
			reading = true
			cc.AsyncReadNext(func(err error, item []byte) {
				reading = false
				if err != nil {
					ended, endErr = true, err
					return
				}
				if got >= len(items) {
					rt.Fatalf("%s/%s: item #%d returned, the peer wrote %d", transport, rearm, got, len(items))
				}
				if !bytes.Equal(item, items[got]) {
					rt.Fatalf("%s/%s: item #%d: got %d bytes %x.., want %d bytes %x..", transport, rearm, got, len(item), head(item), len(items[got]), head(items[got]))
				}
				got++
				if rearm == "in-callback" {
					arm()
				}
			})
		}
		arm() // nothing to read: the operation goes to the poller
		if !reading || ended {
			rt.Fatalf("%s: AsyncReadNext with nothing sent completed at once (ended=%v err=%v)", transport, ended, endErr)
		}
		if rapid.Bool().Draw(rt, "pollForNothing") {
			_ = ioc.RunOneFor(time.Millisecond)
			if !reading || ended || got != 0 {
				rt.Fatalf("%s: the parked AsyncReadNext completed with nothing sent (got=%d ended=%v err=%v)", transport, got, ended, endErr)
			}
		}
		// the peer writes everything and goes away before the loop is polled again
		segs := rapid.IntRange(1, 3).Draw(rt, "segments")
		for k := 0; k < segs; k++ {
			lo, hi := len(wire)*k/segs, len(wire)*(k+1)/segs
			for lo < hi {
				w, err := syscall.Write(peer, wire[lo:hi])
				if err != nil {
					rt.Fatalf("INFRA: peer write: %v", err)
				}
				lo += w
			}
		}
		_ = syscall.Close(peer)
		peer = -1
		if transport == "tcp" {
			for deadline := time.Now().Add(2 * time.Second); sysx.Unread(rawFd) < len(wire) && time.Now().Before(deadline); {
				time.Sleep(200 * time.Microsecond)
			}
			time.Sleep(time.Millisecond) // the FIN is right behind the last segment
		}
		began := time.Now()
		for !ended {
			if !reading {
				arm()
			}
			if reading {
				_ = ioc.RunOneFor(5 * time.Millisecond)
			}
			if time.Since(began) > vt.Patience(5*time.Second) {
				vt.TimedOut()
				rt.Fatalf("%s/%s: %d of %d items and no end of stream after the peer wrote %d bytes and went away", transport, rearm, got, len(items), len(wire))
			}
		}
		if got != len(items) {
			rt.Fatalf("%s/%s: the reader was told the stream ended (%v) after %d of the %d items the peer had written before it went away (%d segments, %d bytes)", transport, rearm, endErr, got, len(items), segs, len(wire))
		}
		if endErr != io.EOF {
			rt.Fatalf("%s/%s: the stream ended with %v, want io.EOF", transport, rearm, endErr)
		}
		rec.Case(fmt.Sprintf("parked|%s|%s|%d|%d|%d", transport, rearm, n, segs, len(wire)), n >= 2, []string{"tail-while-parked:" + transport}, map[string]any{"transport": transport, "rearm": rearm, "items": n, "segments": segs, "bytes": len(wire)})
	})
}
