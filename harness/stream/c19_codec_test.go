package stream

// C19 — CodecConn framing with the length-prefixed codec is independent of
// transport segmentation.

import (
	"bytes"
	"encoding/binary"
	"errors"
	"fmt"
	"io"
	"sync"
	"testing"

	"github.com/talostrading/sonic"
	"github.com/talostrading/sonic/codec/frame"
	"github.com/talostrading/sonic/sonicerrors"
	"pgregory.net/rapid"
	"verif/internal/evid"
	"verif/internal/memstream"
	"verif/internal/sysx"
	"verif/internal/vt"
)

var (
	ioOnce   sync.Once
	sharedIO *sonic.IO
)

func theIO() *sonic.IO {
	ioOnce.Do(func() { sharedIO = sonic.MustIO() })
	return sharedIO
}

const c19Rule = "rapid: payload lists (sizes {0,1,508,509,4096,65536}+random) framed with a 4-byte big-endian prefix; (a) reads over a scripted transport under a generated segmentation with cuts biased into the length prefix and byte-by-byte runs, ReadNext and AsyncReadNext (inline/parked); (b) WriteNext/AsyncWriteNext over the scripted transport: captured bytes == concatenation of prefix+payload, write buffer empty after each success; (c) sonic.Dial<->sonic.Listen pair with 32 KiB kernel buffers and items up to 256 KiB so both directions hit would-block mid-item, generated interleaving of start-write/start-read/poll; (d) hostile bytes and over-limit headers: error before buffering, no panic; non-trivial = a cut inside a length prefix OR an item needing >=2 transport transfers OR >=3 items coalesced in one read; distinct = hash of payload sizes + cuts/schedule"

func wireOf(items [][]byte) []byte {
	var w []byte
	for _, it := range items {
		var h [4]byte
		binary.BigEndian.PutUint32(h[:], uint32(len(it)))
		w = append(w, h[:]...)
		w = append(w, it...)
	}
	return w
}

func genItems(t *rapid.T, maxItems, big int) [][]byte {
	n := rapid.IntRange(1, maxItems).Draw(t, "nitems")
	items := make([][]byte, n)
	for i := range items {
		ln := rapid.OneOf(rapid.IntRange(0, 20), rapid.IntRange(0, 20), rapid.IntRange(0, 600),
			rapid.SampledFrom([]int{0, 1, 507, 508, 509, 512, 4096, big})).Draw(t, fmt.Sprintf("len%d", i))
		fill := byte(rapid.IntRange(0, 255).Draw(t, fmt.Sprintf("fill%d", i)))
		b := make([]byte, ln)
		for j := range b {
			b[j] = fill + byte(j*29) + byte(j>>7)
		}
		items[i] = b
	}
	return items
}

func TestC19_ReadSegmentation(t *testing.T) {
	rec := evid.For("C19")
	rec.SetRule(c19Rule)
	rec.Assume("declared lengths above ~1 MiB (one case in thirty has an item just above 1 MiB followed by small ones) and up to the 1 GiB limit are not generated (each would allocate that much); the limit is exercised with headers just above it and far above it")
	vt.Check(t, 1500, func(t *rapid.T) {
		big := 65536
		if rapid.IntRange(0, 29).Draw(t, "huge") == 0 {
			big = 1<<20 + rapid.IntRange(1, 5000).Draw(t, "hugeExtra") // above 1 MiB: the receive buffer grows well past its usual sizes
		}
		items := genItems(t, 6, big)
		if big > 1<<20 {
			// make sure one item really is that large and that something follows it in the stream
			items[0] = make([]byte, big)
			for j := range items[0] {
				items[0][j] = byte(j*29) + byte(j>>7)
			}
			items = append(items, []byte("follower-1"), []byte("follower-2"))
		}
		wire := wireOf(items)
		// cuts
		set := map[int]bool{}
		starts := []int{}
		off := 0
		for _, it := range items {
			starts = append(starts, off)
			off += 4 + len(it)
		}
		k := rapid.IntRange(0, 8).Draw(t, "ncuts")
		for i := 0; i < k; i++ {
			if rapid.Bool().Draw(t, "inprefix") {
				s := starts[rapid.IntRange(0, len(starts)-1).Draw(t, "which")]
				set[s+rapid.IntRange(1, 3).Draw(t, "poff")] = true
			} else {
				set[rapid.IntRange(1, len(wire)).Draw(t, "cut")] = true
			}
		}
		if len(wire) <= 300 && rapid.IntRange(0, 9).Draw(t, "bytewise") == 0 {
			for c := 1; c < len(wire); c++ {
				set[c] = true
			}
		}
		var chunks [][]byte
		var cuts []int
		prev := 0
		for c := 1; c < len(wire); c++ {
			if set[c] {
				chunks = append(chunks, append([]byte(nil), wire[prev:c]...))
				cuts = append(cuts, c)
				prev = c
			}
		}
		chunks = append(chunks, append([]byte(nil), wire[prev:]...))
		cutInPrefix := false
		for _, c := range cuts {
			for _, s := range starts {
				if c > s && c < s+4 {
					cutInPrefix = true
				}
			}
		}
		coalesced := 0
		{
			// how many whole items does the largest chunk cover?
			p := 0
			for _, ch := range chunks {
				n := 0
				for i, s := range starts {
					if s >= p && s+4+len(items[i]) <= p+len(ch) {
						n++
					}
				}
				if n > coalesced {
					coalesced = n
				}
				p += len(ch)
			}
		}
		pattern := rapid.SliceOfN(rapid.Bool(), 1, 6).Draw(t, "inline")
		for _, async := range []bool{false, true} {
			ms := memstream.New(copyChunks(chunks))
			j := 0
			ms.Inline = func(bool) bool { j++; return pattern[j%len(pattern)] }
			src, dst := sonic.NewByteBuffer(), sonic.NewByteBuffer()
			cc, err := sonic.NewCodecConn[[]byte, []byte](ms, frame.NewCodec(src), src, dst)
			if err != nil {
				t.Fatal(err)
			}
			for i := 0; i <= len(items); i++ {
				var got []byte
				var rerr error
				if async {
					calls := 0
					cc.AsyncReadNext(func(err error, item []byte) {
						calls++
						rerr = err
						got = append([]byte(nil), item...)
					})
					for d := 0; calls == 0; d++ {
						if !ms.Deliver() || d > 100000 {
							t.Fatalf("AsyncReadNext #%d: callback not invoked (cuts %v)", i, cuts)
						}
					}
					if calls != 1 {
						t.Fatalf("AsyncReadNext #%d: callback invoked %d times", i, calls)
					}
				} else {
					item, err := cc.ReadNext()
					rerr = err
					got = append([]byte(nil), item...)
				}
				if i == len(items) {
					if rerr == nil {
						t.Fatalf("async=%v: an item (%d bytes) was returned after the %d written ones (cuts %v)", async, len(got), len(items), cuts)
					}
					if rerr != io.EOF {
						t.Fatalf("async=%v: end of transport reported as %v", async, rerr)
					}
					break
				}
				if rerr != nil {
					t.Fatalf("async=%v: item #%d (want %d bytes): %v (cuts %v)", async, i, len(items[i]), rerr, cuts)
				}
				if !bytes.Equal(got, items[i]) {
					t.Fatalf("async=%v: item #%d differs: got %d bytes %x.., want %d bytes %x.. (cuts %v)", async, i, len(got), head(got), len(items[i]), head(items[i]), cuts)
				}
			}
		}
		var sizes []int
		for _, it := range items {
			sizes = append(sizes, len(it))
		}
		var cls []string
		cls = append(cls, "read-segmentation")
		if cutInPrefix {
			cls = append(cls, "cut-in-prefix")
		}
		if coalesced >= 3 {
			cls = append(cls, ">=3-items-coalesced")
		}
		rec.Case(fmt.Sprintf("r|%v|%v", sizes, cuts), cutInPrefix || coalesced >= 3, cls, map[string]any{"kind": "read", "sizes": sizes, "cuts": cuts})
	})
}

func head(b []byte) []byte {
	if len(b) > 12 {
		return b[:12]
	}
	return b
}

func copyChunks(chunks [][]byte) [][]byte {
	out := make([][]byte, len(chunks))
	for i, c := range chunks {
		out[i] = append([]byte(nil), c...)
	}
	return out
}

func TestC19_WritePath(t *testing.T) {
	rec := evid.For("C19")
	rec.SetRule(c19Rule)
	vt.Check(t, 1000, func(t *rapid.T) {
		items := genItems(t, 6, 65536)
		pattern := rapid.SliceOfN(rapid.Bool(), 1, 6).Draw(t, "inline")
		ms := memstream.New(nil)
		j := 0
		ms.Inline = func(bool) bool { j++; return pattern[j%len(pattern)] }
		src, dst := sonic.NewByteBuffer(), sonic.NewByteBuffer()
		cc, _ := sonic.NewCodecConn[[]byte, []byte](ms, frame.NewCodec(src), src, dst)
		var modes []bool
		for i, it := range items {
			async := rapid.Bool().Draw(t, "async")
			modes = append(modes, async)
			var n int
			var werr error
			if async {
				calls := 0
				cc.AsyncWriteNext(it, func(err error, k int) { calls++; werr, n = err, k })
				for d := 0; calls == 0; d++ {
					if !ms.Deliver() || d > 1000 {
						t.Fatalf("AsyncWriteNext #%d: callback not invoked", i)
					}
				}
				if calls != 1 {
					t.Fatalf("AsyncWriteNext #%d: callback invoked %d times", i, calls)
				}
			} else {
				n, werr = cc.WriteNext(it)
			}
			if werr != nil {
				t.Fatalf("write #%d (async=%v, %d bytes): %v", i, async, len(it), werr)
			}
			if n != 4+len(it) {
				t.Fatalf("write #%d (async=%v) of a %d-byte payload reported %d bytes, want %d", i, async, len(it), n, 4+len(it))
			}
			if dst.ReadLen() != 0 || dst.WriteLen() != 0 {
				t.Fatalf("after write #%d (async=%v) the write buffer still holds %d readable / %d pending bytes", i, async, dst.ReadLen(), dst.WriteLen())
			}
			if want := wireOf(items[:i+1]); !bytes.Equal(ms.Out, want) {
				t.Fatalf("after write #%d (async=%v) the transport received %d bytes, want %d (prefix+payload of the items so far); tail got %x want %x", i, async, len(ms.Out), len(want), tail(ms.Out), tail(want))
			}
		}
		var sizes []int
		for _, it := range items {
			sizes = append(sizes, len(it))
		}
		rec.Case(fmt.Sprintf("w|%v|%v|%v", sizes, modes, pattern), len(items) >= 3, []string{"write-path"}, map[string]any{"kind": "write", "sizes": sizes, "async": modes})
	})
}

func tail(b []byte) []byte {
	if len(b) > 12 {
		return b[len(b)-12:]
	}
	return b
}

func TestC19_Hostile(t *testing.T) {
	rec := evid.For("C19")
	rec.SetRule(c19Rule)
	vt.Check(t, 1500, func(t *rapid.T) {
		var wire []byte
		overLimit := false
		switch rapid.IntRange(0, 2).Draw(t, "mode") {
		case 0:
			wire = rapid.SliceOfN(rapid.Byte(), 0, 40).Draw(t, "raw")
			if len(wire) >= 4 {
				// keep allocations sane: lengths in (1 MiB, limit] are rewritten to just above the limit
				if v := binary.BigEndian.Uint32(wire); v > 1<<20 && v <= frame.MaxPayloadLength {
					binary.BigEndian.PutUint32(wire, frame.MaxPayloadLength+1+v%1000)
				}
			}
		case 1:
			items := genItems(t, 3, 4096)
			wire = wireOf(items)
			v := rapid.SampledFrom([]uint32{frame.MaxPayloadLength + 1, frame.MaxPayloadLength + 2, 1<<31 - 1, 1 << 31, 1<<32 - 1, 0x80000001}).Draw(t, "hdr")
			var h [4]byte
			binary.BigEndian.PutUint32(h[:], v)
			wire = append(wire, h[:]...)
			wire = append(wire, rapid.SliceOfN(rapid.Byte(), 0, 10).Draw(t, "tail")...)
			overLimit = true
		default:
			items := genItems(t, 3, 4096)
			wire = wireOf(items)
			wire = wire[:rapid.IntRange(0, len(wire)).Draw(t, "trunc")]
		}
		if len(wire) >= 4 && binary.BigEndian.Uint32(wire) > frame.MaxPayloadLength {
			overLimit = true
		}
		// reference walk
		var want [][]byte
		wantErr := "eof"
		p := 0
		for {
			if len(wire)-p < 4 {
				break
			}
			n := binary.BigEndian.Uint32(wire[p:])
			if n > frame.MaxPayloadLength {
				wantErr = "overflow"
				break
			}
			if uint64(len(wire)-p-4) < uint64(n) {
				break
			}
			want = append(want, wire[p+4:p+4+int(n)])
			p += 4 + int(n)
		}
		cut := rapid.IntRange(0, len(wire)).Draw(t, "cut")
		chunks := [][]byte{append([]byte(nil), wire[:cut]...), append([]byte(nil), wire[cut:]...)}
		ms := memstream.New(chunks)
		src, dst := sonic.NewByteBuffer(), sonic.NewByteBuffer()
		cc, _ := sonic.NewCodecConn[[]byte, []byte](ms, frame.NewCodec(src), src, dst)
		for i := 0; ; i++ {
			capBefore := src.Cap()
			item, err := cc.ReadNext()
			if err == nil {
				if i >= len(want) || !bytes.Equal(item, want[i]) {
					t.Fatalf("item #%d (%d bytes) returned, reference has %d items (wire %x..)", i, len(item), len(want), head(wire))
				}
				continue
			}
			if i != len(want) {
				t.Fatalf("error %v after %d items, reference yields %d items first (wire %x..)", err, i, len(want), head(wire))
			}
			switch wantErr {
			case "overflow":
				if !errors.Is(err, frame.ErrPayloadLengthOverflow) {
					t.Fatalf("declared length above the limit reported as %v", err)
				}
				if src.Cap() != capBefore && src.Cap() > capBefore+len(wire)+4096 {
					t.Fatalf("capacity grew from %d to %d for an over-limit header", capBefore, src.Cap())
				}
			default:
				if errors.Is(err, frame.ErrPayloadLengthOverflow) || errors.Is(err, sonicerrors.ErrNeedMore) {
					t.Fatalf("truncated input reported as %v, want the transport's end-of-stream", err)
				}
			}
			break
		}
		rec.Case(fmt.Sprintf("h|%x|%d", wire, cut), overLimit || (cut > 0 && cut < 4), []string{"hostile"}, map[string]any{"kind": "hostile", "wire_head": fmt.Sprintf("%x", head(wire)), "len": len(wire), "cut": cut, "expect": wantErr})
	})
}

// socket pair: sender = sonic.Dial conn, receiver = conn accepted by sonic.Listen, same IO.
func TestC19_SocketWouldBlock(t *testing.T) {
	rec := evid.For("C19")
	rec.SetRule(c19Rule)
	vt.Check(t, 60, func(t *rapid.T) {
		ioc := theIO()
		ln, err := sonic.Listen(ioc, "tcp", "127.0.0.1:0")
		if err != nil {
			t.Fatalf("INFRA: listen: %v", err)
		}
		defer ln.Close()
		_, port, err := sysx.LocalAddr4(ln.RawFd())
		if err != nil {
			t.Fatal(err)
		}
		sender, err := sonic.Dial(ioc, "tcp", fmt.Sprintf("127.0.0.1:%d", port))
		if err != nil {
			t.Fatalf("INFRA: dial: %v", err)
		}
		defer sender.Close()
		sysx.NoLinger(sender.RawFd())
		receiver, err := ln.Accept()
		if err != nil {
			t.Fatalf("INFRA: accept: %v", err)
		}
		defer receiver.Close()
		sysx.NoLinger(receiver.RawFd())
		sysx.SetBuf(sender.RawFd(), 32768, 0)
		sysx.SetBuf(receiver.RawFd(), 0, 32768)

		n := rapid.IntRange(1, 5).Draw(t, "nitems")
		items := make([][]byte, n)
		var sizes []int
		for i := range items {
			ln := rapid.OneOf(rapid.IntRange(0, 2000), rapid.SampledFrom([]int{0, 1, 4096, 65536, 200000, 262144})).Draw(t, fmt.Sprintf("len%d", i))
			b := make([]byte, ln)
			fill := byte(rapid.IntRange(0, 255).Draw(t, fmt.Sprintf("fill%d", i)))
			for j := range b {
				b[j] = fill + byte(j*31) + byte(j>>9)
			}
			items[i] = b
			sizes = append(sizes, ln)
		}
		ssrc, sdst := sonic.NewByteBuffer(), sonic.NewByteBuffer()
		rsrc, rdst := sonic.NewByteBuffer(), sonic.NewByteBuffer()
		scc, _ := sonic.NewCodecConn[[]byte, []byte](sender, frame.NewCodec(ssrc), ssrc, sdst)
		rcc, _ := sonic.NewCodecConn[[]byte, []byte](receiver, frame.NewCodec(rsrc), rsrc, rdst)

		wi, ri := 0, 0
		writing, reading := false, false
		wDeferred, rDeferred := 0, 0
		var sched []string
		var failure string
		startWrite := func() {
			if writing || wi >= len(items) || failure != "" {
				return
			}
			writing = true
			i := wi
			inline := true
			scc.AsyncWriteNext(items[i], func(err error, k int) {
				writing = false
				if !inline {
					wDeferred++
				}
				if err != nil {
					failure = fmt.Sprintf("write #%d: %v", i, err)
					return
				}
				if sdst.ReadLen() != 0 || sdst.WriteLen() != 0 {
					failure = fmt.Sprintf("write #%d of %d bytes completed with success (n=%d) but %d bytes are still in the write buffer", i, len(items[i]), k, sdst.ReadLen()+sdst.WriteLen())
					return
				}
				if k != 4+len(items[i]) {
					failure = fmt.Sprintf("write #%d of a %d-byte payload reported %d bytes", i, len(items[i]), k)
				}
				wi++
			})
			inline = false
		}
		startRead := func() {
			if reading || ri >= len(items) || failure != "" {
				return
			}
			reading = true
			i := ri
			inline := true
			rcc.AsyncReadNext(func(err error, item []byte) {
				reading = false
				if !inline {
					rDeferred++
				}
				if err != nil {
					failure = fmt.Sprintf("read #%d: %v", i, err)
					return
				}
				if !bytes.Equal(item, items[i]) {
					failure = fmt.Sprintf("read #%d: got %d bytes %x.., want %d bytes %x..", i, len(item), head(item), len(items[i]), head(items[i]))
					return
				}
				ri++
			})
			inline = false
		}
		poll := func() {
			// settle: give the kernel the chance to make whichever side is deferred ready
			if reading {
				sysx.WaitReadable(receiver.RawFd(), 20)
			}
			if writing {
				sysx.WaitWritable(sender.RawFd(), 20)
			}
			_, _ = ioc.PollOne()
		}
		steps := rapid.SliceOfN(rapid.SampledFrom([]string{"w", "r", "p", "p"}), 0, 30).Draw(t, "schedule")
		for _, s := range steps {
			switch s {
			case "w":
				startWrite()
			case "r":
				startRead()
			default:
				poll()
			}
			sched = append(sched, s)
			if failure != "" {
				break
			}
		}
		starved := 0
		for iter := 0; failure == "" && (wi < len(items) || ri < len(items)); iter++ {
			startWrite()
			startRead()
			poll()
			// every write reported success, nothing is left in either socket, and the reader still waits for an item:
			// bytes the writer was told had gone out never did
			if wi == len(items) && !writing && reading && sysx.Unsent(sender.RawFd()) == 0 && sysx.Unread(receiver.RawFd()) == 0 {
				if starved++; starved > 25 {
					failure = fmt.Sprintf("all %d writes completed with success and both sockets are drained, but item #%d (%d bytes) has not been delivered: the reader holds %d undecoded bytes - part of an item never reached the wire", len(items), ri, len(items[ri]), rsrc.ReadLen()+rsrc.WriteLen())
				}
			} else {
				starved = 0
			}
			if iter > 3000 {
				t.Fatalf("INFRA: no progress (written %d read %d of %d); sizes=%v", wi, ri, len(items), sizes)
			}
		}
		if failure != "" {
			t.Fatalf("%s; sizes=%v schedule=%v", failure, sizes, sched)
		}
		cls := []string{"socket"}
		if wDeferred > 0 {
			cls = append(cls, "write-would-block-mid-item")
		}
		if rDeferred > 0 {
			cls = append(cls, "read-would-block-mid-item")
		}
		rec.Case(fmt.Sprintf("s|%v|%v", sizes, sched), wDeferred > 0 || rDeferred > 0, cls, map[string]any{"kind": "socket", "sizes": sizes, "schedule": sched, "writes_deferred": wDeferred, "reads_deferred": rDeferred})
	})
}

// FuzzC19Decode: coverage-guided hostile bytes into CodecConn.ReadNext.
func FuzzC19Decode(f *testing.F) {
	f.Add([]byte{0, 0, 0, 1, 'a'}, uint16(2))
	f.Add([]byte{0, 0, 0, 0, 0, 0, 0, 2, 'x', 'y'}, uint16(5))
	f.Add([]byte{0x40, 0, 0, 1}, uint16(1))
	f.Add([]byte{0xff, 0xff, 0xff, 0xff, 1, 2}, uint16(0))
	f.Add([]byte{0x40, 0, 0, 0}, uint16(3))
	f.Fuzz(func(t *testing.T, wire []byte, c uint16) {
		if len(wire) >= 4 {
			if v := binary.BigEndian.Uint32(wire); v > 1<<20 && v <= frame.MaxPayloadLength {
				return // would allocate up to 1 GiB: outside the generated domain
			}
		}
		// every later header must respect the same bound
		p := 0
		var want [][]byte
		wantErr := "eof"
		for len(wire)-p >= 4 {
			n := binary.BigEndian.Uint32(wire[p:])
			if n > frame.MaxPayloadLength {
				wantErr = "overflow"
				break
			}
			if n > 1<<20 {
				return
			}
			if uint64(len(wire)-p-4) < uint64(n) {
				break
			}
			want = append(want, wire[p+4:p+4+int(n)])
			p += 4 + int(n)
		}
		cut := 0
		if len(wire) > 0 {
			cut = int(c) % (len(wire) + 1)
		}
		ms := memstream.New([][]byte{append([]byte(nil), wire[:cut]...), append([]byte(nil), wire[cut:]...)})
		src, dst := sonic.NewByteBuffer(), sonic.NewByteBuffer()
		cc, _ := sonic.NewCodecConn[[]byte, []byte](ms, frame.NewCodec(src), src, dst)
		for i := 0; ; i++ {
			item, err := cc.ReadNext()
			if err == nil {
				if i >= len(want) || !bytes.Equal(item, want[i]) {
					t.Fatalf("item #%d differs from the reference", i)
				}
				continue
			}
			if i != len(want) {
				t.Fatalf("error %v after %d items, want %d items", err, i, len(want))
			}
			if wantErr == "overflow" && !errors.Is(err, frame.ErrPayloadLengthOverflow) {
				t.Fatalf("over-limit header reported as %v", err)
			}
			if wantErr == "eof" && err != io.EOF {
				t.Fatalf("truncated input reported as %v", err)
			}
			break
		}
	})
}

// Blocking API over a transport that behaves like a non-blocking socket: short writes and would-block in the middle of
// an item. The caller finishes the item by flushing the write buffer; nothing may be sent twice or left out.
func TestC19_SyncWriteWouldBlockMidItem(t *testing.T) {
	rec := evid.For("C19")
	rec.SetRule(c19Rule)
	vt.Check(t, 800, func(t *rapid.T) {
		items := genItems(t, 5, 4096)
		ms := memstream.New(nil)
		src, dst := sonic.NewByteBuffer(), sonic.NewByteBuffer()
		cc, _ := sonic.NewCodecConn[[]byte, []byte](ms, frame.NewCodec(src), src, dst)
		blocked := 0
		var plans [][]int
		for i, it := range items {
			plan := rapid.SliceOfN(rapid.SampledFrom([]int{0, 0, 1, 2, 3, 5, 100, 1000}), 0, 5).Draw(t, "plan")
			plans = append(plans, plan)
			ms.SyncWritePlan = append([]int(nil), plan...)
			n, err := cc.WriteNext(it)
			for guard := 0; err != nil; guard++ {
				if !errors.Is(err, sonicerrors.ErrWouldBlock) {
					t.Fatalf("WriteNext #%d: %v", i, err)
				}
				if guard > 20 {
					t.Fatalf("WriteNext #%d still would-block after the transport accepts everything", i)
				}
				blocked++
				// the socket became writable again: the caller flushes what is left of the item
				var m int64
				m, err = dst.WriteTo(ms)
				n += int(m)
			}
			if n != 4+len(it) {
				t.Fatalf("item #%d (%d bytes, write plan %v): the write calls reported %d bytes in total, want %d", i, len(it), plan, n, 4+len(it))
			}
			if dst.ReadLen() != 0 || dst.WriteLen() != 0 {
				t.Fatalf("item #%d: %d bytes left in the write buffer after it was reported written", i, dst.ReadLen()+dst.WriteLen())
			}
			if want := wireOf(items[:i+1]); !bytes.Equal(ms.Out, want) {
				t.Fatalf("after item #%d (%d bytes, write plan %v) the transport holds %d bytes, want %d (prefix+payload of every item exactly once); tails got %x want %x", i, len(it), plan, len(ms.Out), len(want), tail(ms.Out), tail(want))
			}
		}
		var sizes []int
		for _, it := range items {
			sizes = append(sizes, len(it))
		}
		rec.Case(fmt.Sprintf("sw|%v|%v", sizes, plans), blocked > 0, []string{"sync-write-would-block-mid-item"}, map[string]any{"kind": "sync-write", "sizes": sizes, "write_plans": plans, "would_block_count": blocked})
	})
}

// A caller that keeps submitting items while the transport is not taking them: WriteNext reports would-block, the item
// (or its rest) stays in the write buffer, and the next WriteNext comes without a flush in between. Everything submitted
// must reach the transport once, in order, when it takes bytes again.
func TestC19_SyncWriteQueuedBehindWouldBlock(t *testing.T) {
	rec := evid.For("C19")
	rec.SetRule(c19Rule + " || queued behind would-block: 2..40 items of mostly similar sizes (not growing) written with the blocking WriteNext over a scripted non-blocking transport that takes a few bytes or nothing per call; the caller never flushes between items (would-block is tolerated, any other error is not); at the end the buffer is flushed and the transport must hold prefix+payload of every item exactly once, in order; non-trivial = at least two items were submitted while bytes of an earlier one were still unsent")
	vt.Check(t, 400, func(t *rapid.T) {
		n := rapid.IntRange(2, 40).Draw(t, "nitems")
		base := rapid.SampledFrom([]int{1, 60, 500, 508, 1000, 4000}).Draw(t, "base")
		var items [][]byte
		for i := 0; i < n; i++ {
			ln := base
			switch rapid.IntRange(0, 3).Draw(t, "vary") {
			case 0:
				ln = rapid.IntRange(0, base).Draw(t, "smaller")
			case 1:
				ln = base + rapid.IntRange(0, 8).Draw(t, "larger")
			}
			b := make([]byte, ln)
			for j := range b {
				b[j] = byte(i*29 + j*3 + 1)
			}
			items = append(items, b)
		}
		ms := memstream.New(nil)
		src, dst := sonic.NewByteBuffer(), sonic.NewByteBuffer()
		cc, _ := sonic.NewCodecConn[[]byte, []byte](ms, frame.NewCodec(src), src, dst)
		behind := 0
		var plans [][]int
		for i, it := range items {
			// the transport takes a little or nothing for this call
			plan := rapid.SliceOfN(rapid.SampledFrom([]int{0, 0, 0, 1, 3, 100, 600}), 1, 3).Draw(t, "plan")
			plan = append(plan, 0) // and then nothing more: the rest stays queued
			plans = append(plans, plan)
			ms.SyncWritePlan = append([]int(nil), plan...)
			if dst.ReadLen() > 0 {
				behind++
			}
			if _, err := cc.WriteNext(it); err != nil && !errors.Is(err, sonicerrors.ErrWouldBlock) {
				t.Fatalf("WriteNext #%d (%d bytes) with %d bytes of earlier items still unsent: %v", i, len(it), dst.ReadLen(), err)
			}
		}
		ms.SyncWritePlan = nil
		for guard := 0; dst.ReadLen() > 0; guard++ {
			if _, err := dst.WriteTo(ms); err != nil && !errors.Is(err, sonicerrors.ErrWouldBlock) {
				t.Fatalf("final flush: %v", err)
			}
			if guard > 50 {
				t.Fatalf("the write buffer still holds %d bytes after 50 flushes into a transport that accepts everything", dst.ReadLen())
			}
		}
		if want := wireOf(items); !bytes.Equal(ms.Out, want) {
			// locate the first item that is missing or damaged
			off, bad := 0, -1
			for i, it := range items {
				end := off + 4 + len(it)
				if end > len(ms.Out) || !bytes.Equal(ms.Out[off:end], want[off:end]) {
					bad = i
					break
				}
				off = end
			}
			t.Fatalf("the transport holds %d bytes, want %d (prefix+payload of all %d items once, in order); first difference in item #%d (%d bytes) at stream offset %d", len(ms.Out), len(want), len(items), bad, len(items[max(bad, 0)]), off)
		}
		var sizes []int
		for _, it := range items {
			sizes = append(sizes, len(it))
		}
		rec.Case(fmt.Sprintf("swq|%v|%v", sizes, plans), behind >= 2, []string{"sync-write-queued-behind-would-block"}, map[string]any{"kind": "sync-write-queued", "items": len(items), "submitted_behind_unsent_bytes": behind})
	})
}

// Chains: every AsyncWriteNext is issued from the completion callback of the previous one, every AsyncReadNext likewise
// (the natural way to stream items). After 32 nested inline completions the next operation is handed to the poller.
func TestC19_SocketChains(t *testing.T) {
	rec := evid.For("C19")
	rec.SetRule(c19Rule)
	vt.Check(t, 60, func(t *rapid.T) {
		ioc := theIO()
		ln, err := sonic.Listen(ioc, "tcp", "127.0.0.1:0")
		if err != nil {
			t.Fatalf("INFRA: listen: %v", err)
		}
		defer ln.Close()
		_, port, _ := sysx.LocalAddr4(ln.RawFd())
		sender, err := sonic.Dial(ioc, "tcp", fmt.Sprintf("127.0.0.1:%d", port))
		if err != nil {
			t.Fatalf("INFRA: dial: %v", err)
		}
		defer sender.Close()
		sysx.NoLinger(sender.RawFd())
		receiver, err := ln.Accept()
		if err != nil {
			t.Fatalf("INFRA: accept: %v", err)
		}
		defer receiver.Close()
		sysx.NoLinger(receiver.RawFd())
		n := rapid.IntRange(34, 120).Draw(t, "nitems")
		items := make([][]byte, n)
		var sizes []int
		for i := range items {
			ln := rapid.OneOf(rapid.IntRange(0, 40), rapid.IntRange(0, 40), rapid.IntRange(0, 700)).Draw(t, "len")
			b := make([]byte, ln)
			for j := range b {
				b[j] = byte(i*13 + j*7)
			}
			items[i] = b
			sizes = append(sizes, ln)
		}
		ssrc, sdst := sonic.NewByteBuffer(), sonic.NewByteBuffer()
		rsrc, rdst := sonic.NewByteBuffer(), sonic.NewByteBuffer()
		scc, _ := sonic.NewCodecConn[[]byte, []byte](sender, frame.NewCodec(ssrc), ssrc, sdst)
		rcc, _ := sonic.NewCodecConn[[]byte, []byte](receiver, frame.NewCodec(rsrc), rsrc, rdst)
		wcalls := make([]int, n)
		rcalls := 0
		wi, ri := 0, 0
		var failure string
		var writeNext, readNext func()
		writeNext = func() {
			if wi >= n || failure != "" {
				return
			}
			i := wi
			wi++
			scc.AsyncWriteNext(items[i], func(err error, k int) {
				wcalls[i]++
				if wcalls[i] > 1 {
					failure = fmt.Sprintf("write callback of item #%d invoked %d times", i, wcalls[i])
					return
				}
				if err != nil {
					failure = fmt.Sprintf("write #%d: %v", i, err)
					return
				}
				if k != 4+len(items[i]) {
					failure = fmt.Sprintf("write #%d of a %d-byte payload reported %d bytes", i, len(items[i]), k)
					return
				}
				writeNext()
			})
		}
		readNext = func() {
			if ri >= n || failure != "" {
				return
			}
			i := ri
			rcc.AsyncReadNext(func(err error, item []byte) {
				rcalls++
				if err != nil {
					failure = fmt.Sprintf("read #%d: %v", i, err)
					return
				}
				if i != ri {
					failure = fmt.Sprintf("read callback #%d invoked again", i)
					return
				}
				if !bytes.Equal(item, items[i]) {
					failure = fmt.Sprintf("read #%d: got %d bytes %x.., want %d bytes %x..", i, len(item), head(item), len(items[i]), head(items[i]))
					return
				}
				ri++
				readNext()
			})
		}
		writeNext()
		readNext()
		for iter := 0; failure == "" && (ri < n); iter++ {
			sysx.WaitReadable(receiver.RawFd(), 20)
			_, _ = ioc.PollOne()
			if iter > 5000 {
				t.Fatalf("INFRA: no progress (written %d read %d of %d)", wi, ri, n)
			}
		}
		if failure != "" {
			t.Fatalf("%s; sizes=%v", failure, sizes)
		}
		for i, c := range wcalls {
			if c != 1 {
				t.Fatalf("write callback of item #%d invoked %d times although every item arrived; sizes=%v", i, c, sizes)
			}
		}
		rec.Case(fmt.Sprintf("ch|%v", sizes), true, []string{"socket-chains"}, map[string]any{"kind": "socket-chain", "items": n, "sizes_head": sizes[:min(len(sizes), 40)]})
	})
}
