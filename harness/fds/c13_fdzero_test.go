package fds

// C13 for the one descriptor number that is easy to get wrong: 0. A process that runs with stdin closed (a daemon) hands
// number 0 to the first object it creates; that object's Close, and the cleanup of its failing constructor, must release
// it like any other number.

import (
	"fmt"
	"net"
	"syscall"
	"testing"

	"github.com/talostrading/sonic"
	"github.com/talostrading/sonic/multicast"
	"github.com/talostrading/sonic/sonicopts"
	"verif/internal/evid"
	"verif/internal/sysx"
)

func TestC13_DescriptorZero(t *testing.T) {
	rec := evid.For("C13")
	rec.SetRule("descriptor zero: with descriptor 0 closed (stdin saved and restored around each case) every kind of object (UDPPeer, packet conn, dialled conn, listener, timer, file) is created - it receives number 0 -, and closed: 0 must be free again; a UDPPeer and a packet conn whose constructor fails after the socket was created must leave 0 free as well; enumerated completely")
	ioc, err := sonic.NewIO()
	if err != nil {
		t.Fatalf("INFRA: %v", err)
	}
	defer ioc.Close()
	rawLn, err := sysx.ListenTCP()
	if err != nil {
		t.Fatalf("INFRA: %v", err)
	}
	defer rawLn.Close()
	type kase struct {
		name string
		run  func() (fd int, closeFn func() error, err error)
		fail bool // the constructor is expected to fail
	}
	var peers []int
	defer func() {
		for _, p := range peers {
			sysx.Reset(p)
		}
	}()
	cases := []kase{
		{"UDPPeer", func() (int, func() error, error) {
			p, err := multicast.NewUDPPeer(ioc, "udp", "127.0.0.1:0")
			if err != nil {
				return -1, nil, err
			}
			return p.NextLayer().RawFd(), p.Close, nil
		}, false},
		{"UDPPeer:non-local-address", func() (int, func() error, error) {
			_, err := multicast.NewUDPPeer(ioc, "udp", "10.9.9.9:5000")
			return -1, nil, err
		}, true},
		{"PacketConn", func() (int, func() error, error) {
			c, err := sonic.NewPacketConn(ioc, "udp", "127.0.0.1:0")
			if err != nil {
				return -1, nil, err
			}
			return c.RawFd(), c.Close, nil
		}, false},
		{"PacketConn:non-local-address", func() (int, func() error, error) {
			_, err := sonic.NewPacketConn(ioc, "udp", "10.9.9.9:5000")
			return -1, nil, err
		}, true},
		{"Dial", func() (int, func() error, error) {
			c, err := sonic.Dial(ioc, "tcp", rawLn.Addr())
			if err != nil {
				return -1, nil, err
			}
			if p, err := rawLn.Accept(2000); err == nil {
				peers = append(peers, p)
			}
			return c.RawFd(), c.Close, nil
		}, false},
		{"Dial:refused", func() (int, func() error, error) {
			_, err := sonic.Dial(ioc, "tcp", fmt.Sprintf("127.0.0.1:%d", freshDeadPort()))
			return -1, nil, err
		}, true},
		{"Listen", func() (int, func() error, error) {
			l, err := sonic.Listen(ioc, "tcp", "127.0.0.1:0", sonicopts.Nonblocking(true))
			if err != nil {
				return -1, nil, err
			}
			return l.RawFd(), l.Close, nil
		}, false},
		{"Listen:non-local-address", func() (int, func() error, error) {
			_, err := sonic.Listen(ioc, "tcp", "10.9.9.9:0")
			return -1, nil, err
		}, true},
		{"Open", func() (int, func() error, error) {
			f, err := sonic.Open(ioc, "/dev/null", syscall.O_RDWR, 0)
			if err != nil {
				return -1, nil, err
			}
			return f.RawFd(), f.Close, nil
		}, false},
	}
	_ = net.IPv4zero
	for _, c := range cases {
		saved, err := syscall.Dup(0)
		if err != nil {
			t.Fatalf("INFRA: dup(0): %v", err)
		}
		_ = syscall.Close(0)
		fd, closeFn, cerr := c.run()
		var closeErr error
		if closeFn != nil {
			closeErr = closeFn()
		}
		target, stillOpen := census()[0]
		// restore stdin before reporting anything
		if stillOpen {
			_ = syscall.Close(0)
		}
		if err := syscall.Dup2(saved, 0); err != nil {
			t.Fatalf("INFRA: restoring descriptor 0: %v", err)
		}
		_ = syscall.Close(saved)
		switch {
		case c.fail && cerr == nil:
			t.Fatalf("INFRA: %s did not fail", c.name)
		case !c.fail && cerr != nil:
			t.Fatalf("INFRA: %s failed: %v", c.name, cerr)
		case !c.fail && fd != 0:
			t.Fatalf("INFRA: %s received descriptor %d although 0 was free", c.name, fd)
		}
		if stillOpen {
			if c.fail {
				t.Fatalf("%s failed with %q and left descriptor 0 open (%s): the number the failing constructor had received was 0", c.name, trunc(cerr), target)
			}
			t.Fatalf("%s received descriptor 0, Close returned %v, and descriptor 0 is still open (%s)", c.name, closeErr, target)
		}
		rec.Case("fdzero|"+c.name, true, []string{"descriptor-zero"}, map[string]any{"object": c.name, "constructor_error": trunc(cerr)})
	}
}
