package fds

// C13, "an object with an operation in flight stays alive", for an object that is created inside the completion callback
// of another object which closes itself there: the new object receives the descriptor number that was just released, and
// whatever the old object still does with "its" number after the callback returns must not touch the new owner's
// keep-alive entry. Generations alternate between kinds of objects (connection, listener, packet conn).

import (
	"fmt"
	"net"
	"runtime"
	"sync/atomic"
	"syscall"
	"testing"
	"time"

	"github.com/talostrading/sonic"
	"github.com/talostrading/sonic/sonicopts"
	"pgregory.net/rapid"
	"verif/internal/evid"
	"verif/internal/sysx"
	"verif/internal/vt"
)

type chainGen struct {
	kind     string // conn-read | listener-accept | packet-read
	fd       int
	calls    int32
	complete func() // makes the deferred operation of this generation completable (harness side)
	cleanup  func()
}

type chainState struct {
	ioc       *sonic.IO
	rawLn     *sysx.RawTCPListener
	gens      []*chainGen
	finalized int32
	problem   string
}

type chainSentinel struct{ g int }

// start creates generation g and defers its operation; only the loop refers to the object afterwards.
//
//go:noinline
func (st *chainState) start(g int) {
	if g >= len(st.gens) || st.problem != "" {
		return
	}
	gen := st.gens[g]
	s := &chainSentinel{g}
	runtime.SetFinalizer(s, func(*chainSentinel) { atomic.AddInt32(&st.finalized, 1) })
	switch gen.kind {
	case "conn-read":
		c, err := sonic.Dial(st.ioc, "tcp", st.rawLn.Addr())
		if err != nil {
			st.problem = "INFRA: dial: " + err.Error()
			return
		}
		p, err := st.rawLn.Accept(2000)
		if err != nil {
			st.problem = "INFRA: accept: " + err.Error()
			return
		}
		gen.fd = c.RawFd()
		gen.complete = func() { _, _ = syscall.Write(p, []byte("x")) }
		gen.cleanup = func() { sysx.Reset(p) }
		c.AsyncRead(make([]byte, 8), func(err error, n int) {
			atomic.AddInt32(&gen.calls, 1)
			runtime.KeepAlive(s)
			if g+1 < len(st.gens) {
				_ = c.Close()
				st.start(g + 1)
			}
		})
	case "listener-accept":
		l, err := sonic.Listen(st.ioc, "tcp", "127.0.0.1:0", sonicopts.Nonblocking(true))
		if err != nil {
			st.problem = "INFRA: listen: " + err.Error()
			return
		}
		gen.fd = l.RawFd()
		_, port, _ := sysx.LocalAddr4(l.RawFd())
		var peer int = -1
		gen.complete = func() {
			if fd, err := sysx.ConnectTCP(port); err == nil {
				peer = fd
			}
		}
		gen.cleanup = func() {
			if peer >= 0 {
				sysx.Reset(peer)
			}
		}
		l.AsyncAccept(func(err error, c sonic.Conn) {
			atomic.AddInt32(&gen.calls, 1)
			runtime.KeepAlive(s)
			if c != nil {
				_ = c.Close()
			}
			if g+1 < len(st.gens) {
				_ = l.Close()
				st.start(g + 1)
			}
		})
	default: // packet-read
		pc, err := sonic.NewPacketConn(st.ioc, "udp", "127.0.0.1:0")
		if err != nil {
			st.problem = "INFRA: NewPacketConn: " + err.Error()
			return
		}
		gen.fd = pc.RawFd()
		_, port, _ := sysx.LocalAddr4(pc.RawFd())
		gen.complete = func() { sendUDP(port) }
		gen.cleanup = func() {}
		pc.AsyncReadFrom(make([]byte, 8), func(err error, n int, _ net.Addr) {
			atomic.AddInt32(&gen.calls, 1)
			runtime.KeepAlive(s)
			if g+1 < len(st.gens) {
				_ = pc.Close()
				st.start(g + 1)
			}
		})
	}
}

func TestC13_OwnerCreatedInAClosingCallback(t *testing.T) {
	rec := evid.For("C13")
	rec.SetRule("closing-callback chains: 2..5 generations of objects (connection with a deferred read, listener with a deferred accept, packet conn with a deferred read; kinds drawn per generation); the completion callback of generation g closes its own object and creates generation g+1, which normally receives the descriptor number just released, and defers its operation; the program keeps no reference; garbage collections are forced; each generation's operation must then complete exactly once when it is made completable and its callback state must not have been collected; non-trivial = at least one generation reused the previous one's descriptor number")
	vt.Check(t, 60, func(rt *rapid.T) {
		ioc, err := sonic.NewIO()
		if err != nil {
			rt.Fatalf("INFRA: NewIO: %v", err)
		}
		defer ioc.Close()
		rawLn, err := sysx.ListenTCP()
		if err != nil {
			rt.Fatalf("INFRA: listen: %v", err)
		}
		defer rawLn.Close()
		st := &chainState{ioc: ioc, rawLn: rawLn}
		n := rapid.IntRange(2, 5).Draw(rt, "generations")
		var kinds []string
		for g := 0; g < n; g++ {
			k := rapid.SampledFrom([]string{"conn-read", "listener-accept", "listener-accept", "packet-read"}).Draw(rt, "kind")
			st.gens = append(st.gens, &chainGen{kind: k, fd: -1})
			kinds = append(kinds, k)
		}
		gcEvery := rapid.Bool().Draw(rt, "gcAfterEveryGeneration")
		defer func() {
			for _, gen := range st.gens {
				if gen.cleanup != nil {
					gen.cleanup()
				}
			}
			// objects nobody closed: the last generation, and earlier ones whose callback never ran
			seen := map[int]bool{}
			for _, gen := range st.gens {
				if gen.fd >= 0 && !seen[gen.fd] {
					seen[gen.fd] = true
					_ = syscall.Close(gen.fd)
				}
			}
		}()
		st.start(0)
		if st.problem != "" {
			rt.Fatalf("%s", st.problem)
		}
		reused := 0
		for g, gen := range st.gens {
			if gen.fd < 0 {
				rt.Fatalf("INFRA: generation %d was never created (%s)", g, st.problem)
			}
			if atomic.LoadInt32(&gen.calls) != 0 {
				rt.Fatalf("INFRA: the operation of generation %d (%s) was not deferred", g, gen.kind)
			}
			if gcEvery || g == len(st.gens)-1 {
				for i := 0; i < 3; i++ {
					runtime.GC()
					time.Sleep(time.Millisecond)
				}
			}
			if f := atomic.LoadInt32(&st.finalized); int(f) > g {
				rt.Fatalf("generation %d (%s, descriptor %d), created in the completion callback of generation %d (%s), which had closed itself there, was garbage collected while its operation is in flight; kinds=%v", g, gen.kind, gen.fd, g-1, st.gens[max(g-1, 0)].kind, kinds)
			}
			gen.complete()
			for i := 0; i < 300 && atomic.LoadInt32(&gen.calls) == 0; i++ {
				_ = ioc.RunOneFor(2 * time.Millisecond)
			}
			if c := atomic.LoadInt32(&gen.calls); c != 1 {
				rt.Fatalf("the deferred operation of generation %d (%s, descriptor %d) completed %d times after it was made completable (Pending()=%d); kinds=%v", g, gen.kind, gen.fd, c, ioc.Pending(), kinds)
			}
			if st.problem != "" {
				rt.Fatalf("%s", st.problem)
			}
			if g > 0 && gen.fd == st.gens[g-1].fd {
				reused++
			}
		}
		rec.Case(fmt.Sprintf("closingcb|%v|%v", kinds, gcEvery), reused > 0, []string{"owner-created-in-a-closing-callback"}, map[string]any{"kinds": kinds, "descriptor_number_reused": reused})
	})
}
