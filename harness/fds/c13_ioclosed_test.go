package fds

// C13, "Close releases exactly the descriptors the object owns", when the IO was closed before the object: whatever the
// poller answers when the object tries to withdraw its operations, the object's own descriptor must be released.

import (
	"fmt"
	"net"
	"strings"
	"syscall"
	"testing"

	"github.com/talostrading/sonic"
	"github.com/talostrading/sonic/sonicopts"
	"pgregory.net/rapid"
	"verif/internal/evid"
	"verif/internal/sysx"
	"verif/internal/vt"
)

func TestC13_CloseAfterTheIOWasClosed(t *testing.T) {
	rec := evid.For("C13")
	rec.SetRule("objects closed after their IO: a connection (dialled or accepted), listener or packet conn with nothing, a read, a write, or both deferred; the IO is closed first (optionally a new IO is created, which takes over the epoll descriptor number), then the object; after Close the object's socket (by inode) must be gone from /proc/self/fd whatever Close returned, and a second Close must not close anything else; non-trivial = an operation was deferred when the IO was closed")
	vt.Check(t, 80, func(rt *rapid.T) {
		ioc, err := sonic.NewIO()
		if err != nil {
			rt.Fatalf("INFRA: NewIO: %v", err)
		}
		ioClosed := false
		defer func() {
			if !ioClosed {
				_ = ioc.Close()
			}
		}()
		rawLn, err := sysx.ListenTCP()
		if err != nil {
			rt.Fatalf("INFRA: listen: %v", err)
		}
		defer rawLn.Close()
		kind := rapid.SampledFrom([]string{"dialled", "dialled", "accepted", "listener", "packet"}).Draw(rt, "kind")
		deferred := rapid.SampledFrom([]string{"none", "read", "write", "read+write"}).Draw(rt, "deferred")
		var fd int
		var closeObj func() error
		var peer = -1
		defer func() {
			if peer >= 0 {
				sysx.Reset(peer)
			}
		}()
		fill := func(fd int) []byte {
			junk := make([]byte, 1<<16)
			for i := 0; i < 4096; i++ {
				if n, err := syscall.Write(fd, junk); err != nil || n <= 0 {
					break
				}
			}
			return junk
		}
		calls := 0
		switch kind {
		case "dialled", "accepted":
			var c sonic.Conn
			if kind == "dialled" {
				c, err = sonic.Dial(ioc, "tcp", rawLn.Addr())
				if err != nil {
					rt.Fatalf("INFRA: dial: %v", err)
				}
				if peer, err = rawLn.Accept(2000); err != nil {
					rt.Fatalf("INFRA: accept: %v", err)
				}
			} else {
				l, err := sonic.Listen(ioc, "tcp", "127.0.0.1:0", sonicopts.Nonblocking(true))
				if err != nil {
					rt.Fatalf("INFRA: listen: %v", err)
				}
				defer l.Close()
				_, port, _ := sysx.LocalAddr4(l.RawFd())
				if peer, err = sysx.ConnectTCP(port); err != nil {
					rt.Fatalf("INFRA: connect: %v", err)
				}
				sysx.WaitReadable(l.RawFd(), 1000)
				if c, err = l.Accept(); err != nil {
					rt.Fatalf("INFRA: accept: %v", err)
				}
			}
			fd = c.RawFd()
			if strings.Contains(deferred, "read") {
				c.AsyncRead(make([]byte, 8), func(error, int) { calls++ })
			}
			if strings.Contains(deferred, "write") {
				junk := fill(fd)
				c.AsyncWrite(junk, func(error, int) { calls++ })
			}
			closeObj = c.Close
		case "listener":
			l, err := sonic.Listen(ioc, "tcp", "127.0.0.1:0", sonicopts.Nonblocking(true))
			if err != nil {
				rt.Fatalf("INFRA: listen: %v", err)
			}
			fd = l.RawFd()
			if deferred != "none" {
				deferred = "read"
				l.AsyncAccept(func(error, sonic.Conn) { calls++ })
			}
			closeObj = l.Close
		default:
			pc, err := sonic.NewPacketConn(ioc, "udp", "127.0.0.1:0")
			if err != nil {
				rt.Fatalf("INFRA: NewPacketConn: %v", err)
			}
			fd = pc.RawFd()
			if deferred != "none" {
				deferred = "read"
				pc.AsyncReadFrom(make([]byte, 8), func(error, int, net.Addr) { calls++ })
			}
			closeObj = pc.Close
		}
		if calls != 0 {
			rt.Fatalf("INFRA: an operation completed although nothing was sent")
		}
		inode := census()[fd]
		if !strings.HasPrefix(inode, "socket:") {
			rt.Fatalf("INFRA: descriptor %d of the %s object is %q", fd, kind, inode)
		}
		_ = ioc.Close()
		ioClosed = true
		replaced := rapid.Bool().Draw(rt, "newIOTakesTheNumber")
		if replaced {
			ioc2, err := sonic.NewIO()
			if err != nil {
				rt.Fatalf("INFRA: NewIO: %v", err)
			}
			defer ioc2.Close()
		}
		others := census()
		cerr := closeObj()
		after := census()
		for n, target := range after {
			if target == inode {
				rt.Fatalf("%s object with %s deferred, closed after its IO%s: Close returned %v and its socket %s is still open as descriptor %d (every later Close is a no-op: the descriptor is leaked)", kind, deferred, map[bool]string{true: " (a new IO had been created meanwhile)", false: ""}[replaced], cerr, inode, n)
			}
		}
		_ = closeObj()
		again := census()
		for n, target := range others {
			if n != fd && again[n] != target {
				rt.Fatalf("%s object closed after its IO: descriptor %d (%s) that belongs to somebody else changed to %q across its Close calls", kind, n, target, again[n])
			}
		}
		rec.Case(fmt.Sprintf("ioclosed|%s|%s|%v", kind, deferred, replaced), deferred != "none", []string{"closed-after-its-IO"}, map[string]any{"kind": kind, "deferred": deferred, "new_io_created": replaced, "close_error": fmt.Sprint(cerr)})
	})
}
