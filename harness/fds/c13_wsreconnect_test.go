package fds

// C13 through the WebSocket stream's teardown: CloseNextLayer releases exactly the connection of the session it was
// called on, also when one of the callbacks it completes (a cancelled read) starts the next session on the same Stream.

import (
	"bufio"
	"bytes"
	"errors"
	"fmt"
	"net"
	"net/http"
	"runtime/debug"
	"strings"
	"testing"
	"time"

	"github.com/talostrading/sonic"
	"github.com/talostrading/sonic/codec/websocket"
	"github.com/talostrading/sonic/sonicerrors"
	"pgregory.net/rapid"
	"verif/internal/evid"
	"verif/internal/rfc6455"
	"verif/internal/vt"
)

func socketInodes() map[string]int {
	m := map[string]int{}
	for fd, target := range census() {
		if strings.HasPrefix(target, "socket:") {
			m[target] = fd
		}
	}
	return m
}

func TestC13_WebsocketCloseAndReconnect(t *testing.T) {
	rec := evid.For("C13")
	rec.SetRule("websocket teardown histories: 1..4 sessions on one Stream; each ends with CloseNextLayer, with or without a read in flight, and the next session is started by a blocking or asynchronous handshake either after CloseNextLayer returned or from inside the callback CloseNextLayer completes with ErrCancelled; after every CloseNextLayer the socket of the session it ended must be gone from /proc/self/fd, the socket of the session that follows must be open and carry a message, and at the end no socket is left; non-trivial = a reconnect from inside the cancelled callback")
	vt.Check(t, 60, func(rt *rapid.T) {
		defer debug.SetGCPercent(debug.SetGCPercent(-1)) // a leaked net.Conn must not be closed by its finalizer behind our back
		ln, err := net.Listen("tcp", "127.0.0.1:0")
		if err != nil {
			rt.Fatalf("INFRA: listen: %v", err)
		}
		srvc := make(chan net.Conn, 8)
		go func() {
			for {
				c, err := ln.Accept()
				if err != nil {
					return
				}
				_ = c.(*net.TCPConn).SetLinger(0)
				_ = c.SetDeadline(time.Now().Add(10 * time.Second))
				req, err := http.ReadRequest(bufio.NewReader(c))
				if err != nil {
					_ = c.Close()
					srvc <- nil
					continue
				}
				fmt.Fprintf(c, "HTTP/1.1 101 Switching Protocols\r\nUpgrade: websocket\r\nConnection: Upgrade\r\nSec-WebSocket-Accept: %s\r\n\r\n", rfc6455.AcceptKey(req.Header.Get("Sec-WebSocket-Key")))
				srvc <- c
			}
		}()
		var srvConns []net.Conn
		defer func() {
			_ = ln.Close()
			for _, c := range srvConns {
				_ = c.Close()
			}
		}()
		ioc, err := sonic.NewIO()
		if err != nil {
			rt.Fatalf("INFRA: NewIO: %v", err)
		}
		defer ioc.Close()
		url := "ws://" + ln.Addr().String() + "/"
		before := socketInodes()
		s, err := websocket.NewWebsocketStream(ioc, nil, websocket.RoleClient)
		if err != nil {
			rt.Fatalf("INFRA: %v", err)
		}
		var trace []string
		server := func() net.Conn {
			select {
			case c := <-srvc:
				if c == nil {
					rt.Fatalf("INFRA: server side of the handshake failed; trace=%v", trace)
				}
				srvConns = append(srvConns, c)
				return c
			case <-time.After(5 * time.Second):
				rt.Fatalf("INFRA: no connection reached the server; trace=%v", trace)
			}
			return nil
		}
		// inode of the client's socket for the current session
		clientSocket := func() string {
			fd := s.RawFd()
			target := census()[fd]
			if !strings.HasPrefix(target, "socket:") {
				rt.Fatalf("the stream reports descriptor %d for its active session, which is %q in /proc/self/fd; trace=%v", fd, target, trace)
			}
			return target
		}
		if err := s.Handshake(url); err != nil {
			rt.Fatalf("INFRA: first handshake: %v", err)
		}
		srv := server()
		sessions := rapid.IntRange(1, 4).Draw(rt, "sessions")
		nontrivial := false
		for i := 0; i < sessions; i++ {
			last := i == sessions-1
			cur := clientSocket()
			read := rapid.Bool().Draw(rt, "readInFlight")
			how := "none"
			if !last {
				if read {
					how = rapid.SampledFrom([]string{"callback-blocking", "callback-async", "after-blocking", "after-async"}).Draw(rt, "reconnect")
				} else {
					how = rapid.SampledFrom([]string{"after-blocking", "after-async"}).Draw(rt, "reconnect")
				}
			}
			trace = append(trace, fmt.Sprintf("session %d: read in flight=%v, next session: %s", i, read, how))
			var hsDone, hsCalls int
			var hsErr error
			reconnect := func(async bool) {
				if async {
					s.AsyncHandshake(url, func(err error) { hsCalls++; hsErr = err; hsDone = 1 })
				} else {
					hsErr = s.Handshake(url)
					hsCalls++
					hsDone = 1
				}
			}
			readCalls := 0
			var readErr error
			if read {
				s.AsyncNextMessage(make([]byte, 64), func(err error, _ int, _ websocket.MessageType) {
					readCalls++
					readErr = err
					if readCalls == 1 && strings.HasPrefix(how, "callback-") {
						reconnect(how == "callback-async")
					}
				})
				if readCalls != 0 {
					rt.Fatalf("INFRA: the read completed although the server sent nothing: %v", readErr)
				}
			}
			if err := s.CloseNextLayer(); err != nil {
				rt.Fatalf("CloseNextLayer of session %d: %v; trace=%v", i, err, trace)
			}
			if read && (readCalls != 1 || !errors.Is(readErr, sonicerrors.ErrCancelled)) {
				rt.Fatalf("the read in flight completed %d times with %v when its connection was closed; trace=%v", readCalls, readErr, trace)
			}
			if strings.HasPrefix(how, "after-") {
				reconnect(how == "after-async")
			}
			if _, open := socketInodes()[cur]; open {
				rt.Fatalf("CloseNextLayer returned and the socket of the session it ended (%s) is still open as descriptor %d; trace=%v", cur, socketInodes()[cur], trace)
			}
			if last {
				break
			}
			for deadline := time.Now().Add(5 * time.Second); hsDone == 0 && time.Now().Before(deadline); {
				_ = ioc.RunOneFor(5 * time.Millisecond)
			}
			if hsCalls != 1 || hsErr != nil {
				rt.Fatalf("INFRA: handshake of session %d: %d completions, err=%v; trace=%v", i+1, hsCalls, hsErr, trace)
			}
			srv = server()
			next := clientSocket()
			if next == cur {
				rt.Fatalf("session %d runs on the socket of session %d; trace=%v", i+1, i, trace)
			}
			msg := []byte(fmt.Sprintf("session-%d", i+1))
			if err := s.Write(msg, websocket.TypeBinary); err != nil {
				rt.Fatalf("session %d was established (state %v) and its first write fails with %v: its connection did not survive the CloseNextLayer of session %d; trace=%v", i+1, s.State(), err, i, trace)
			}
			var got []byte
			buf := make([]byte, 256)
			for {
				n, err := srv.Read(buf)
				got = append(got, buf[:n]...)
				if f, _, st := rfc6455.Parse(got); st == rfc6455.OK {
					if !bytes.Equal(f.Payload, msg) {
						rt.Fatalf("the server of session %d received %q, want %q; trace=%v", i+1, f.Payload, msg, trace)
					}
					break
				}
				if err != nil {
					rt.Fatalf("the server of session %d did not receive the client's message: %v (got %x); trace=%v", i+1, err, got, trace)
				}
			}
			if strings.HasPrefix(how, "callback-") {
				nontrivial = true
			}
		}
		_ = srv
		_ = ln.Close()
		for _, c := range srvConns {
			_ = c.Close()
		}
		srvConns = nil
		after := socketInodes()
		for ino, fd := range after {
			if _, was := before[ino]; !was {
				rt.Fatalf("socket %s (descriptor %d) is still open after every session was closed with CloseNextLayer; trace=%v", ino, fd, trace)
			}
		}
		rec.Case("wsreconnect|"+strings.Join(trace, ";"), nontrivial, []string{"websocket-close-and-reconnect"}, map[string]any{"trace": trace})
	})
}
