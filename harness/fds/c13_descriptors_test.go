package fds

// C13 — no descriptor leaks, no foreign close, owners of in-flight operations stay alive.

import (
	"fmt"
	"net"
	"net/netip"
	"os"
	"path/filepath"
	"runtime"
	"sort"
	"strings"
	"sync/atomic"
	"syscall"
	"testing"
	"time"

	"github.com/talostrading/sonic"
	sbytes "github.com/talostrading/sonic/bytes"
	"github.com/talostrading/sonic/codec/websocket"
	"github.com/talostrading/sonic/multicast"
	"github.com/talostrading/sonic/sonicopts"
	"pgregory.net/rapid"
	"verif/internal/evid"
	"verif/internal/known"
	"verif/internal/rfc6455"
	"verif/internal/sysx"
	"verif/internal/vt"
)

var devNull = func() int {
	fd, _ := syscall.Open("/dev/null", syscall.O_RDWR|syscall.O_CLOEXEC, 0)
	return fd
}()

// withFdBudget lowers RLIMIT_NOFILE, fills the descriptor table and frees
// exactly k slots, runs fn, then restores everything. While fn runs, the
// (k+1)-th descriptor allocation fails with EMFILE.
func withFdBudget(k int, fn func()) error {
	var old syscall.Rlimit
	if err := syscall.Getrlimit(syscall.RLIMIT_NOFILE, &old); err != nil {
		return err
	}
	maxFd := 0
	for fd := range sysx.FdCensus() {
		if fd > maxFd {
			maxFd = fd
		}
	}
	limit := uint64(maxFd + 48)
	if err := syscall.Setrlimit(syscall.RLIMIT_NOFILE, &syscall.Rlimit{Cur: limit, Max: old.Max}); err != nil {
		return err
	}
	var fillers []int
	for {
		fd, err := syscall.Dup(devNull)
		if err != nil {
			break
		}
		fillers = append(fillers, fd)
	}
	if k > len(fillers) {
		k = len(fillers)
	}
	for i := 0; i < k; i++ {
		_ = syscall.Close(fillers[len(fillers)-1-i])
	}
	fillers = fillers[:len(fillers)-k]
	func() {
		defer func() {
			for _, fd := range fillers {
				_ = syscall.Close(fd)
			}
			_ = syscall.Setrlimit(syscall.RLIMIT_NOFILE, &old)
		}()
		fn()
	}()
	return nil
}

// census returns the open descriptors.
// census is the descriptor table without the descriptors the Go runtime itself opens for a moment on its own threads
// (it re-reads /sys/devices/system/cpu/online and cgroup files under /proc and /sys now and then): they appear and
// disappear independently of anything the library does and would be attributed to whatever call is being measured.
func census() map[int]string {
	m := sysx.FdCensus()
	for fd, target := range m {
		if strings.HasPrefix(target, "/sys/") || strings.HasPrefix(target, "/proc/") {
			delete(m, fd)
		}
	}
	return m
}

// settledCensus first lets the collector finalize net.Conns leaked by EARLIER cases, so that their late release is
// not attributed to the case being measured.
func settledCensus() map[int]string {
	for i := 0; i < 2; i++ {
		runtime.GC()
		time.Sleep(2 * time.Millisecond)
	}
	return census()
}

func leakReport(before, after map[int]string) string {
	added, removed := sysx.CensusDiff(before, after)
	if len(added) == 0 && len(removed) == 0 {
		return ""
	}
	return fmt.Sprintf("descriptors added %v, removed %v", added, removed)
}

type ctorCase struct {
	name string
	// run performs the constructor; it returns a cleanup for the success case and the error.
	run    func(env *ctorEnv) (cleanup func(), err error)
	emfile bool
	// maxK bounds the EMFILE exploration (0 = default 8). The websocket handshakes are explored at k=0 only: with a
	// larger budget the harness's own in-process server competes for the freed slots and the client would wait forever
	// for a response that cannot be sent.
	maxK int
}

type ctorEnv struct {
	ioc      *sonic.IO
	rawLn    *sysx.RawTCPListener
	deadPort int
	busyUDP  int // a UDP port bound by the harness without reuse
	dir      string
	wsAddr   string // server for websocket handshakes (set per fault)
}

func freshDeadPort() int {
	l, err := sysx.ListenTCP()
	if err != nil {
		return 1
	}
	p := l.Port
	l.Close()
	return p
}

// wsServer answers one websocket upgrade according to mode and closes.
func wsServer(mode string) (addr string, stop func()) {
	ln, err := net.Listen("tcp", "127.0.0.1:0")
	if err != nil {
		return "", func() {}
	}
	done := make(chan struct{})
	go func() {
		defer close(done)
		_ = ln.(*net.TCPListener).SetDeadline(time.Now().Add(3 * time.Second))
		c, err := ln.Accept()
		if err != nil {
			return
		}
		defer c.Close()
		_ = c.SetDeadline(time.Now().Add(3 * time.Second))
		var req []byte
		buf := make([]byte, 4096)
		for !strings.Contains(string(req), "\r\n\r\n") {
			n, err := c.Read(buf)
			req = append(req, buf[:n]...)
			if err != nil {
				return
			}
		}
		key := ""
		for _, line := range strings.Split(string(req), "\r\n") {
			if i := strings.Index(line, ":"); i > 0 && strings.EqualFold(line[:i], "Sec-WebSocket-Key") {
				key = strings.TrimSpace(line[i+1:])
			}
		}
		ok := "HTTP/1.1 101 Switching Protocols\r\nUpgrade: websocket\r\nConnection: Upgrade\r\nSec-WebSocket-Accept: " + rfc6455.AcceptKey(key) + "\r\n\r\n"
		switch mode {
		case "ok":
			_, _ = c.Write([]byte(ok))
			time.Sleep(20 * time.Millisecond)
		case "status200":
			_, _ = c.Write([]byte("HTTP/1.1 200 OK\r\nContent-Length: 0\r\n\r\n"))
		case "wrong-accept":
			_, _ = c.Write([]byte("HTTP/1.1 101 Switching Protocols\r\nUpgrade: websocket\r\nConnection: Upgrade\r\nSec-WebSocket-Accept: AAAAAAAAAAAAAAAAAAAAAAAAAAA=\r\n\r\n"))
		case "no-upgrade":
			_, _ = c.Write([]byte("HTTP/1.1 101 Switching Protocols\r\nConnection: Upgrade\r\nSec-WebSocket-Accept: " + rfc6455.AcceptKey(key) + "\r\n\r\n"))
		case "truncated":
			_, _ = c.Write([]byte(ok[:40]))
		case "garbage":
			_, _ = c.Write([]byte("\x00\x01\x02 not http at all\r\n\r\n"))
		case "close-immediately":
		}
	}()
	return "ws://" + ln.Addr().String() + "/", func() {
		_ = ln.Close()
		<-done
	}
}

func runHandshake(env *ctorEnv, mode string, async bool) (func(), error) {
	addr, stop := wsServer(mode)
	defer stop()
	if mode == "refused" {
		addr = fmt.Sprintf("ws://127.0.0.1:%d/", env.deadPort)
	}
	if mode == "bad-url" {
		addr = "http://127.0.0.1:1/"
	}
	s, err := websocket.NewWebsocketStream(env.ioc, nil, websocket.RoleClient)
	if err != nil {
		return nil, err
	}
	var herr error
	if async {
		done := false
		s.AsyncHandshake(addr, func(err error) { done, herr = true, err })
		deadline := time.Now().Add(8 * time.Second)
		for !done && time.Now().Before(deadline) {
			_ = env.ioc.RunOneFor(2 * time.Millisecond)
		}
		if !done {
			return nil, fmt.Errorf("INFRA: AsyncHandshake callback never ran")
		}
	} else {
		herr = s.Handshake(addr)
	}
	if herr != nil {
		return nil, herr
	}
	return func() { _ = s.CloseNextLayer() }, nil
}

func ctorTable() []ctorCase {
	var t []ctorCase
	add := func(name string, emfile bool, run func(env *ctorEnv) (func(), error)) {
		t = append(t, ctorCase{name: name, run: run, emfile: emfile})
	}
	add("NewIO", true, func(env *ctorEnv) (func(), error) {
		ioc, err := sonic.NewIO()
		if err != nil {
			return nil, err
		}
		return func() { _ = ioc.Close() }, nil
	})
	add("NewTimer", true, func(env *ctorEnv) (func(), error) {
		tm, err := sonic.NewTimer(env.ioc)
		if err != nil {
			return nil, err
		}
		return func() { _ = tm.Close() }, nil
	})
	add("Dial/tcp", true, func(env *ctorEnv) (func(), error) {
		c, err := sonic.Dial(env.ioc, "tcp", env.rawLn.Addr())
		if err != nil {
			return nil, err
		}
		p, _ := env.rawLn.Accept(1000)
		return func() {
			_ = c.Close()
			if p >= 0 {
				sysx.Reset(p)
			}
		}, nil
	})
	add("Dial/tcp:refused", false, func(env *ctorEnv) (func(), error) {
		c, err := sonic.Dial(env.ioc, "tcp", fmt.Sprintf("127.0.0.1:%d", env.deadPort))
		if err != nil {
			return nil, err
		}
		return func() { _ = c.Close() }, nil
	})
	add("Dial/tcp:bind-option-fails", false, func(env *ctorEnv) (func(), error) {
		c, err := sonic.Dial(env.ioc, "tcp", env.rawLn.Addr(), sonicopts.BindSocket(&net.TCPAddr{IP: net.IPv4(10, 9, 9, 9), Port: 0}))
		if err != nil {
			return nil, err
		}
		return func() { _ = c.Close() }, nil
	})
	add("Dial/udp", true, func(env *ctorEnv) (func(), error) {
		c, err := sonic.Dial(env.ioc, "udp", fmt.Sprintf("127.0.0.1:%d", env.busyUDP))
		if err != nil {
			return nil, err
		}
		return func() { _ = c.Close() }, nil
	})
	add("Dial/udp:bind-option-fails", false, func(env *ctorEnv) (func(), error) {
		c, err := sonic.Dial(env.ioc, "udp", fmt.Sprintf("127.0.0.1:%d", env.busyUDP), sonicopts.BindSocket(&net.UDPAddr{IP: net.IPv4(10, 9, 9, 9), Port: 0}))
		if err != nil {
			return nil, err
		}
		return func() { _ = c.Close() }, nil
	})
	add("Dial:unknown-network", false, func(env *ctorEnv) (func(), error) {
		c, err := sonic.Dial(env.ioc, "sctp", "127.0.0.1:1")
		if err != nil {
			return nil, err
		}
		return func() { _ = c.Close() }, nil
	})
	add("Listen", true, func(env *ctorEnv) (func(), error) {
		l, err := sonic.Listen(env.ioc, "tcp", "127.0.0.1:0", sonicopts.Nonblocking(true))
		if err != nil {
			return nil, err
		}
		return func() { _ = l.Close() }, nil
	})
	add("Listen:bind-conflict", false, func(env *ctorEnv) (func(), error) {
		l, err := sonic.Listen(env.ioc, "tcp", env.rawLn.Addr())
		if err != nil {
			return nil, err
		}
		return func() { _ = l.Close() }, nil
	})
	add("Listen:unroutable", false, func(env *ctorEnv) (func(), error) {
		l, err := sonic.Listen(env.ioc, "tcp", "10.9.9.9:0")
		if err != nil {
			return nil, err
		}
		return func() { _ = l.Close() }, nil
	})
	add("Listen:failing-option", false, func(env *ctorEnv) (func(), error) {
		l, err := sonic.Listen(env.ioc, "tcp", "127.0.0.1:0", sonicopts.BindSocket(&net.TCPAddr{IP: net.IPv4(10, 9, 9, 9)}))
		if err != nil {
			return nil, err
		}
		return func() { _ = l.Close() }, nil
	})
	add("Accept", true, func(env *ctorEnv) (func(), error) {
		l, err := sonic.Listen(env.ioc, "tcp", "127.0.0.1:0", sonicopts.Nonblocking(true))
		if err != nil {
			return nil, fmt.Errorf("INFRA-SETUP: %v", err)
		}
		defer l.Close()
		_, port, _ := sysx.LocalAddr4(l.RawFd())
		p, err := sysx.ConnectTCP(port)
		if err != nil {
			return nil, fmt.Errorf("INFRA-SETUP: %v", err)
		}
		defer sysx.Reset(p)
		sysx.WaitReadable(l.RawFd(), 1000)
		c, err := l.Accept()
		if err != nil {
			return nil, err
		}
		_ = c.Close()
		return func() {}, nil
	})
	add("AsyncAccept", true, func(env *ctorEnv) (func(), error) {
		l, err := sonic.Listen(env.ioc, "tcp", "127.0.0.1:0", sonicopts.Nonblocking(true))
		if err != nil {
			return nil, fmt.Errorf("INFRA-SETUP: %v", err)
		}
		defer l.Close()
		_, port, _ := sysx.LocalAddr4(l.RawFd())
		p, err := sysx.ConnectTCP(port)
		if err != nil {
			return nil, fmt.Errorf("INFRA-SETUP: %v", err)
		}
		defer sysx.Reset(p)
		sysx.WaitReadable(l.RawFd(), 1000)
		var aerr error
		var conn sonic.Conn
		called := false
		l.AsyncAccept(func(err error, c sonic.Conn) { called, aerr, conn = true, err, c })
		if !called {
			return nil, fmt.Errorf("INFRA-SETUP: accept did not complete inline")
		}
		if aerr != nil {
			return nil, aerr
		}
		_ = conn.Close()
		return func() {}, nil
	})
	add("NewPacketConn", true, func(env *ctorEnv) (func(), error) {
		c, err := sonic.NewPacketConn(env.ioc, "udp", "127.0.0.1:0")
		if err != nil {
			return nil, err
		}
		return func() { _ = c.Close() }, nil
	})
	add("NewPacketConn:bind-conflict", false, func(env *ctorEnv) (func(), error) {
		c, err := sonic.NewPacketConn(env.ioc, "udp", fmt.Sprintf("127.0.0.1:%d", env.busyUDP))
		if err != nil {
			return nil, err
		}
		return func() { _ = c.Close() }, nil
	})
	add("NewPacketConn:unroutable", false, func(env *ctorEnv) (func(), error) {
		c, err := sonic.NewPacketConn(env.ioc, "udp", "10.9.9.9:0")
		if err != nil {
			return nil, err
		}
		return func() { _ = c.Close() }, nil
	})
	add("NewPacketConn:bad-network", false, func(env *ctorEnv) (func(), error) {
		c, err := sonic.NewPacketConn(env.ioc, "tcp", "127.0.0.1:0")
		if err != nil {
			return nil, err
		}
		return func() { _ = c.Close() }, nil
	})
	add("NewUDPPeer", true, func(env *ctorEnv) (func(), error) {
		p, err := multicast.NewUDPPeer(env.ioc, "udp", "127.0.0.1:0")
		if err != nil {
			return nil, err
		}
		return func() { _ = p.Close() }, nil
	})
	add("NewUDPPeer:foreign-address", false, func(env *ctorEnv) (func(), error) {
		p, err := multicast.NewUDPPeer(env.ioc, "udp", "10.9.9.9:5000")
		if err != nil {
			return nil, err
		}
		return func() { _ = p.Close() }, nil
	})
	add("NewUDPPeer:bad-address", false, func(env *ctorEnv) (func(), error) {
		p, err := multicast.NewUDPPeer(env.ioc, "udp", "not-an-address")
		if err != nil {
			return nil, err
		}
		return func() { _ = p.Close() }, nil
	})
	add("Open", true, func(env *ctorEnv) (func(), error) {
		f, err := sonic.Open(env.ioc, filepath.Join(env.dir, "file"), os.O_RDWR|os.O_CREATE, 0o600)
		if err != nil {
			return nil, err
		}
		return func() { _ = f.Close() }, nil
	})
	add("Open:missing", false, func(env *ctorEnv) (func(), error) {
		f, err := sonic.Open(env.ioc, filepath.Join(env.dir, "missing", "file"), os.O_RDONLY, 0)
		if err != nil {
			return nil, err
		}
		return func() { _ = f.Close() }, nil
	})
	add("NewMirroredBuffer", true, func(env *ctorEnv) (func(), error) {
		b, err := sbytes.NewMirroredBuffer(syscall.Getpagesize(), false)
		if err != nil {
			return nil, err
		}
		return func() { _ = b.Destroy() }, nil
	})
	add("NewMirroredBuffer:bad-size", false, func(env *ctorEnv) (func(), error) {
		b, err := sbytes.NewMirroredBuffer(-5, false)
		if err != nil {
			return nil, err
		}
		return func() { _ = b.Destroy() }, nil
	})
	for _, async := range []bool{false, true} {
		name := "Handshake"
		if async {
			name = "AsyncHandshake"
		}
		for _, mode := range []string{"refused", "bad-url", "status200", "wrong-accept", "no-upgrade", "truncated", "garbage", "close-immediately"} {
			mode, async := mode, async
			add(name+":"+mode, false, func(env *ctorEnv) (func(), error) { return runHandshake(env, mode, async) })
		}
		async := async
		add(name, true, func(env *ctorEnv) (func(), error) { return runHandshake(env, "ok", async) })
		t[len(t)-1].maxK = 1
	}
	return t
}

func TestC13_ConstructorFaults(t *testing.T) {
	rec := evid.For("C13")
	rec.SetRule("fault enumeration: for every constructor (NewIO, NewTimer, Dial tcp/udp, Listen, Accept, AsyncAccept, NewPacketConn, NewUDPPeer, Open, NewMirroredBuffer, websocket Handshake and AsyncHandshake) the k-th descriptor allocation is made to fail with EMFILE for every k below the number the successful run needs (descriptor table filled, exactly k slots freed), plus refused port, bind conflict, failing bind option, unroutable/foreign bind address, missing path, bad size/network/URL, and handshake responses 200 / wrong accept / no Upgrade / truncated / garbage / immediate close; after each failing constructor the /proc/self/fd census (number -> target) must equal the census before, and six descriptors the harness opens right afterwards (taking the lowest free numbers) must survive two forced garbage collections untouched (nothing the constructor abandoned may close a number later); (b) rapid close histories and (c) GC histories, see their own rules; non-trivial = distinct (constructor, fault) pairs that returned an error; the table is enumerated completely")
	rec.Assume("the census is taken after a warm-up round so that runtime-internal descriptors exist; loopback addresses only (no resolver files are opened)")
	ioc, err := sonic.NewIO()
	if err != nil {
		t.Fatalf("INFRA: %v", err)
	}
	defer ioc.Close()
	rawLn, err := sysx.ListenTCP()
	if err != nil {
		t.Fatalf("INFRA: %v", err)
	}
	defer rawLn.Close()
	busy, err := syscall.Socket(syscall.AF_INET, syscall.SOCK_DGRAM|syscall.SOCK_CLOEXEC, 0)
	if err != nil {
		t.Fatalf("INFRA: %v", err)
	}
	defer syscall.Close(busy)
	_ = syscall.Bind(busy, &syscall.SockaddrInet4{Addr: [4]byte{127, 0, 0, 1}})
	_, busyPort, _ := sysx.LocalAddr4(busy)
	env := &ctorEnv{ioc: ioc, rawLn: rawLn, deadPort: freshDeadPort(), busyUDP: busyPort, dir: t.TempDir()}

	table := ctorTable()
	// warm-up: run everything once so that lazily created runtime descriptors exist
	for _, c := range table {
		if cl, err := c.run(env); err == nil && cl != nil {
			cl()
		}
	}
	runtime.GC()
	time.Sleep(10 * time.Millisecond)

	var leaks []string
	probe := func(key string, bad bool, what string) {
		if !bad {
			return
		}
		if known.Listed("C13", key) {
			known.Probe(t, "C13", key, true, what)
			return
		}
		leaks = append(leaks, what)
	}
	pairs := 0
	for _, c := range table {
		// plain run (fault is part of the case for ":" cases, success otherwise)
		before := settledCensus()
		cl, err := c.run(env)
		if err == nil && cl != nil {
			cl()
		}
		if err != nil && strings.Contains(err.Error(), "INFRA") {
			t.Fatalf("INFRA: %s: %v", c.name, err)
		}
		after := census()
		// "... never closes a descriptor the object no longer owns": whatever the constructor dropped on the floor must
		// not come back later and close a number that has been given to somebody else in the meantime. The harness
		// takes the lowest free numbers, lets the collector run finalizers, and looks whether it still has them.
		var mine []int
		for i := 0; i < 6; i++ {
			if fd, e := syscall.Dup(devNull); e == nil {
				mine = append(mine, fd)
			}
		}
		held := census()
		for i := 0; i < 2; i++ {
			runtime.GC()
			time.Sleep(2 * time.Millisecond)
		}
		late := leakReport(held, census())
		for _, fd := range mine {
			_ = syscall.Close(fd)
		}
		if late != "" {
			probe(leakKey(c.name)+"-late-close", true, fmt.Sprintf("%s (returned %q): after it returned, the harness opened descriptors %v; two garbage collections later the descriptor table had changed behind its back: %s (something the constructor abandoned closed a number it no longer owned)", c.name, trunc(err), mine, late))
		}
		isFault := strings.Contains(c.name, ":")
		if isFault && err == nil {
			t.Fatalf("%s: the fault did not make the constructor fail (harness assumption broken)", c.name)
		}
		if !isFault && err != nil {
			t.Fatalf("INFRA: %s failed without a fault: %v", c.name, err)
		}
		if rep := leakReport(before, after); rep != "" {
			if isFault {
				probe(leakKey(c.name), true, fmt.Sprintf("%s fails with %q and leaves %s", c.name, trunc(err), rep))
			} else {
				t.Fatalf("%s: constructor + Close changed the descriptor table: %s", c.name, rep)
			}
		}
		pairs++
		rec.Case(c.name, err != nil, []string{"ctor"}, map[string]any{"constructor": c.name, "error": trunc(err)})
		if !c.emfile {
			continue
		}
		// EMFILE at the k-th allocation
		maxK := 8
		if c.maxK > 0 {
			maxK = c.maxK
		}
		for k := 0; k < maxK; k++ {
			before := settledCensus()
			var kerr error
			var kcl func()
			if e := withFdBudget(k, func() { kcl, kerr = c.run(env) }); e != nil {
				t.Fatalf("INFRA: rlimit: %v", e)
			}
			if kerr == nil && kcl != nil {
				kcl()
			}
			after := census()
			if kerr == nil {
				if rep := leakReport(before, after); rep != "" {
					t.Fatalf("%s with %d free descriptors succeeded but changed the descriptor table: %s", c.name, k, rep)
				}
				break // k allocations are enough: all smaller budgets were failure points
			}
			if strings.Contains(kerr.Error(), "INFRA-SETUP") {
				continue // the fault hit the harness's own setup, not the constructor
			}
			pairs++
			rec.Case(fmt.Sprintf("%s|EMFILE@%d", c.name, k), true, []string{"emfile"}, map[string]any{"constructor": c.name, "fault": fmt.Sprintf("EMFILE at descriptor allocation %d", k), "error": trunc(kerr)})
			if rep := leakReport(before, after); rep != "" {
				probe(leakKey(c.name)+"-emfile", true, fmt.Sprintf("%s with descriptor allocation %d failing (EMFILE) returns %q and leaves %s", c.name, k, trunc(kerr), rep))
			}
		}
	}
	rec.SetExhaustive(true)
	rec.Count("constructor_fault_pairs", pairs)
	if len(leaks) > 0 {
		sort.Strings(leaks)
		t.Fatalf("%d failing constructors do not restore the descriptor table:\n  %s", len(leaks), strings.Join(leaks, "\n  "))
	}
}

func leakKey(name string) string {
	n := strings.ToLower(name)
	n = strings.NewReplacer("/", "-", ":", "-", " ", "-").Replace(n)
	return "leak-" + n
}

func trunc(err error) string {
	if err == nil {
		return ""
	}
	s := err.Error()
	if len(s) > 80 {
		s = s[:80]
	}
	return s
}

// ---------------------------------------------------------------------------
// (b) repeated Close never closes a descriptor the object no longer owns

type closable struct {
	name   string
	close  func() error
	fd     int
	more   []int // further descriptors the object owns (an IO owns its epoll descriptor and its eventfd)
	closes int
}

func TestC13_RepeatedClose(t *testing.T) {
	rec := evid.For("C13")
	vt.CheckSteps(t, 200, 25, func(rt *rapid.T) {
		ioc, err := sonic.NewIO()
		if err != nil {
			rt.Fatalf("INFRA: %v", err)
		}
		defer ioc.Close()
		rawLn, err := sysx.ListenTCP()
		if err != nil {
			rt.Fatalf("INFRA: %v", err)
		}
		defer rawLn.Close()
		var peers []int
		defer func() {
			for _, p := range peers {
				sysx.Reset(p)
			}
		}()
		dir, _ := os.MkdirTemp("", "verif-fds-")
		defer os.RemoveAll(dir)
		var objs []*closable
		var trace []string
		var atEnd []func()
		defer func() {
			for _, f := range atEnd {
				f()
			}
		}()
		reissued := false
		closedNumbers := map[int]bool{}
		create := func(kind string) {
			var c *closable
			switch kind {
			case "conn":
				cn, err := sonic.Dial(ioc, "tcp", rawLn.Addr())
				if err != nil {
					rt.Fatalf("INFRA: Dial: %v", err)
				}
				p, _ := rawLn.Accept(1000)
				peers = append(peers, p)
				c = &closable{name: kind, close: cn.Close, fd: cn.RawFd()}
			case "listener":
				l, err := sonic.Listen(ioc, "tcp", "127.0.0.1:0", sonicopts.Nonblocking(true))
				if err != nil {
					rt.Fatalf("INFRA: Listen: %v", err)
				}
				c = &closable{name: kind, close: l.Close, fd: l.RawFd()}
			case "packet":
				pc, err := sonic.NewPacketConn(ioc, "udp", "127.0.0.1:0")
				if err != nil {
					rt.Fatalf("INFRA: NewPacketConn: %v", err)
				}
				c = &closable{name: kind, close: pc.Close, fd: pc.RawFd()}
			case "peer":
				mp, err := multicast.NewUDPPeer(ioc, "udp", "127.0.0.1:0")
				if err != nil {
					rt.Fatalf("INFRA: NewUDPPeer: %v", err)
				}
				c = &closable{name: kind, close: mp.Close, fd: mp.NextLayer().RawFd()}
			case "file":
				f, err := sonic.Open(ioc, filepath.Join(dir, fmt.Sprintf("f%d", len(objs))), os.O_RDWR|os.O_CREATE, 0o600)
				if err != nil {
					rt.Fatalf("INFRA: Open: %v", err)
				}
				c = &closable{name: kind, close: f.Close, fd: f.RawFd()}
			case "timer":
				before := census()
				tm, err := sonic.NewTimer(ioc)
				if err != nil {
					rt.Fatalf("INFRA: NewTimer: %v", err)
				}
				added, _ := sysx.CensusDiff(before, census())
				fd := -1
				if len(added) == 1 {
					fmt.Sscanf(added[0], "%d->", &fd)
				}
				c = &closable{name: kind, close: func() error {
					if rapid.Bool().Draw(rt, "cancelFirst") {
						_ = tm.Cancel()
					}
					return tm.Close()
				}, fd: fd}
			case "io":
				before := census()
				io2, err := sonic.NewIO()
				if err != nil {
					rt.Fatalf("INFRA: NewIO: %v", err)
				}
				added, _ := sysx.CensusDiff(before, census())
				var owned []int
				for _, a := range added {
					n := -1
					fmt.Sscanf(a, "%d->", &n)
					owned = append(owned, n)
				}
				if len(owned) == 0 {
					rt.Fatalf("INFRA: NewIO added no descriptor")
				}
				c = &closable{name: kind, close: io2.Close, fd: owned[0], more: owned[1:]}
			case "adapter":
				fds, err := syscall.Socketpair(syscall.AF_UNIX, syscall.SOCK_STREAM|syscall.SOCK_CLOEXEC, 0)
				if err != nil {
					rt.Fatalf("INFRA: socketpair: %v", err)
				}
				peers = append(peers, fds[1])
				f := os.NewFile(uintptr(fds[0]), "sp")
				nc, err := net.FileConn(f)
				_ = f.Close()
				if err != nil {
					rt.Fatalf("INFRA: FileConn: %v", err)
				}
				var ad *sonic.AsyncAdapter
				sonic.NewAsyncAdapter(ioc, nc.(*net.UnixConn), nc, func(err error, a *sonic.AsyncAdapter) { ad = a })
				if ad == nil {
					rt.Fatalf("INFRA: NewAsyncAdapter")
				}
				afd := ad.RawFd()
				c = &closable{name: kind, close: ad.Close, fd: afd}
				// the net.Conn the adapter wraps believes it owns the same number: once the case is over, park /dev/null on the
				// number if it is free and let the net.Conn close that, so that its finalizer cannot hit a stranger later
				atEnd = append(atEnd, func() {
					if !sysx.FdValid(afd) {
						_ = syscall.Dup3(devNull, afd, syscall.O_CLOEXEC)
					}
					_ = nc.Close()
				})
			case "mirrored":
				return
			}
			if closedNumbers[c.fd] {
				reissued = true
			}
			objs = append(objs, c)
			trace = append(trace, fmt.Sprintf("new %s(fd %d)", kind, c.fd))
		}
		type ident struct{ dev, ino uint64 }
		snapshot := func(except *closable) map[*closable]ident {
			m := map[*closable]ident{}
			for _, o := range objs {
				if o.closes == 0 && o != except && o.fd >= 0 {
					d, i, ok := sysx.Inode(o.fd)
					if !ok {
						rt.Fatalf("live object %s lost its descriptor %d; trace=%v", o.name, o.fd, trace)
					}
					m[o] = ident{d, i}
				}
			}
			return m
		}
		rt.Repeat(map[string]func(*rapid.T){
			"create": func(rt *rapid.T) {
				if len(objs) > 12 {
					rt.Skip("enough objects")
				}
				create(rapid.SampledFrom([]string{"conn", "listener", "packet", "peer", "file", "timer", "io", "adapter"}).Draw(rt, "kind"))
			},
			"close": func(rt *rapid.T) {
				if len(objs) == 0 {
					rt.Skip("nothing to close")
				}
				o := objs[rapid.IntRange(0, len(objs)-1).Draw(rt, "which")]
				if o.closes >= 3 {
					rt.Skip("closed often enough")
				}
				live := snapshot(o)
				before := census()
				_ = o.close()
				o.closes++
				trace = append(trace, fmt.Sprintf("close#%d %s(fd %d)", o.closes, o.name, o.fd))
				after := census()
				_, removed := sysx.CensusDiff(before, after)
				if o.closes == 1 {
					closedNumbers[o.fd] = true
					owned := map[int]bool{o.fd: true}
					for _, m := range o.more {
						owned[m] = true
						closedNumbers[m] = true
					}
					ok := len(removed) == len(owned)
					for _, r := range removed {
						n := -1
						fmt.Sscanf(r, "%d->", &n)
						ok = ok && owned[n]
					}
					if !ok {
						rt.Fatalf("first Close of %s (owns %v %v) removed %v from the descriptor table, want exactly what it owns; trace=%v", o.name, o.fd, o.more, removed, trace)
					}
				} else if len(removed) != 0 {
					rt.Fatalf("Close #%d of %s (its descriptor %d was released by the first Close) closed %v, which it does not own; trace=%v", o.closes, o.name, o.fd, removed, trace)
				}
				for other, id := range live {
					d, i, ok := sysx.Inode(other.fd)
					if !ok || (ident{d, i}) != id {
						rt.Fatalf("Close #%d of %s (fd %d) damaged live object %s (fd %d): descriptor valid=%v; trace=%v", o.closes, o.name, o.fd, other.name, other.fd, ok, trace)
					}
				}
			},
		})
		for _, o := range objs {
			if o.closes == 0 {
				_ = o.close()
			}
		}
		double := false
		for _, o := range objs {
			if o.closes >= 2 {
				double = true
			}
		}
		var cls []string
		cls = append(cls, "close-history")
		if reissued {
			cls = append(cls, "number-reissued-between-closes")
		}
		rec.Case("close|"+strings.Join(trace, ","), double && reissued, cls, map[string]any{"history": trace})
	})
}

// ---------------------------------------------------------------------------
// (c) an object with an operation in flight stays alive without references

type sentinel struct{ id int }

//go:noinline
func startOrphan(ioc *sonic.IO, rawLn *sysx.RawTCPListener, wantRead, wantWrite bool, readDone, writeDone, finalized *int32) (peer int, fd int, err error) {
	c, err := sonic.Dial(ioc, "tcp", rawLn.Addr())
	if err != nil {
		return -1, -1, err
	}
	p, err := rawLn.Accept(1000)
	if err != nil {
		_ = c.Close()
		return -1, -1, err
	}
	if wantRead {
		s := &sentinel{1}
		runtime.SetFinalizer(s, func(*sentinel) { atomic.AddInt32(finalized, 1) })
		buf := make([]byte, 16)
		c.AsyncRead(buf, func(err error, n int) {
			atomic.AddInt32(readDone, 1)
			runtime.KeepAlive(s)
		})
	}
	if wantWrite {
		// fill the send buffer so that the write is deferred
		junk := make([]byte, 1<<16)
		for i := 0; i < 10000; i++ {
			if n, err := syscall.Write(c.RawFd(), junk); err != nil || n <= 0 {
				break
			}
		}
		s := &sentinel{2}
		runtime.SetFinalizer(s, func(*sentinel) { atomic.AddInt32(finalized, 1) })
		c.AsyncWrite(junk[:1024], func(err error, n int) {
			atomic.AddInt32(writeDone, 1)
			runtime.KeepAlive(s)
		})
	}
	return p, c.RawFd(), nil
}

func TestC13_OwnerStaysAlive(t *testing.T) {
	rec := evid.For("C13")
	vt.Check(t, 60, func(rt *rapid.T) {
		ioc, err := sonic.NewIO()
		if err != nil {
			rt.Fatalf("INFRA: %v", err)
		}
		defer ioc.Close()
		rawLn, err := sysx.ListenTCP()
		if err != nil {
			rt.Fatalf("INFRA: %v", err)
		}
		defer rawLn.Close()
		wantRead := rapid.Bool().Draw(rt, "read")
		wantWrite := rapid.Bool().Draw(rt, "write")
		if !wantRead && !wantWrite {
			wantRead = true
		}
		gcPoint := rapid.SampledFrom([]string{"before-any-completion", "after-read-completed", "after-write-completed"}).Draw(rt, "gcPoint")
		var readDone, writeDone, finalized int32
		peer, orphanFd, err := startOrphan(ioc, rawLn, wantRead, wantWrite, &readDone, &writeDone, &finalized)
		if err != nil {
			rt.Fatalf("INFRA: %v", err)
		}
		defer sysx.Reset(peer)
		// nobody can Close the orphan (no reference is kept, that is the point): release its descriptor by number when the
		// case is over, otherwise every case leaks one and a long run climbs past descriptor 1023
		defer syscall.Close(orphanFd)
		if wantRead && readDone != 0 || wantWrite && writeDone != 0 {
			rt.Fatalf("INFRA: operations were not deferred")
		}
		gc := func() {
			for i := 0; i < 3; i++ {
				runtime.GC()
				time.Sleep(time.Millisecond)
			}
		}
		completeRead := func() {
			_, _ = syscall.Write(peer, []byte("x"))
			for i := 0; i < 50 && atomic.LoadInt32(&readDone) == 0; i++ {
				_ = ioc.RunOneFor(2 * time.Millisecond)
			}
		}
		completeWrite := func() {
			for i := 0; i < 400 && atomic.LoadInt32(&writeDone) == 0; i++ {
				sysx.ReadSome(peer, 1<<20)
				_ = ioc.RunOneFor(2 * time.Millisecond)
			}
		}
		inflight := func() int32 {
			n := int32(0)
			if wantRead && atomic.LoadInt32(&readDone) == 0 {
				n++
			}
			if wantWrite && atomic.LoadInt32(&writeDone) == 0 {
				n++
			}
			return n
		}
		checkAlive := func(when string) {
			// sentinels of completed callbacks may be gone; those of operations still in flight must not be
			done := int32(0)
			if wantRead {
				done += atomic.LoadInt32(&readDone)
			}
			if wantWrite {
				done += atomic.LoadInt32(&writeDone)
			}
			if f := atomic.LoadInt32(&finalized); f > done {
				rt.Fatalf("%s: %d callback sentinel(s) were finalized while only %d operation(s) completed: the object owning the %d in-flight operation(s) was collected (read=%v write=%v, gc %s)", when, f, done, inflight(), wantRead, wantWrite, gcPoint)
			}
		}
		switch gcPoint {
		case "after-read-completed":
			if wantRead {
				completeRead()
			}
		case "after-write-completed":
			if wantWrite {
				completeWrite()
			}
		}
		gc()
		checkAlive("after the collection")
		if wantRead {
			completeRead()
		}
		checkAlive("after completing the read")
		gc()
		checkAlive("after the second collection")
		if wantWrite {
			completeWrite()
		}
		if wantRead && atomic.LoadInt32(&readDone) != 1 {
			rt.Fatalf("read callback ran %d times (gc %s)", readDone, gcPoint)
		}
		if wantWrite && atomic.LoadInt32(&writeDone) != 1 {
			rt.Fatalf("write callback ran %d times (gc %s)", writeDone, gcPoint)
		}
		cls := []string{"gc"}
		if wantRead && wantWrite {
			cls = append(cls, "gc-both-directions-deferred")
		}
		rec.Case(fmt.Sprintf("gc|%v|%v|%s", wantRead, wantWrite, gcPoint), wantRead && wantWrite, cls, map[string]any{"read": wantRead, "write": wantWrite, "gc_point": gcPoint})
	})
}

// ---------------------------------------------------------------------------
// (b)+(c) together: a repeated Close of A must not disturb an object B that received A's descriptor number, even when
// the program keeps no reference to B and only B's deferred operation keeps it alive.

//go:noinline
func orphanWithDeferredRead(ioc *sonic.IO, rawLn *sysx.RawTCPListener, readDone, finalized *int32) (peer int, fd int, err error) {
	c, err := sonic.Dial(ioc, "tcp", rawLn.Addr())
	if err != nil {
		return -1, -1, err
	}
	p, err := rawLn.Accept(1000)
	if err != nil {
		return -1, -1, err
	}
	s := &sentinel{3}
	runtime.SetFinalizer(s, func(*sentinel) { atomic.AddInt32(finalized, 1) })
	buf := make([]byte, 16)
	c.AsyncRead(buf, func(err error, n int) {
		atomic.AddInt32(readDone, 1)
		runtime.KeepAlive(s)
	})
	return p, c.RawFd(), nil
}

func TestC13_RepeatedCloseAndOrphan(t *testing.T) {
	rec := evid.For("C13")
	vt.Check(t, 80, func(rt *rapid.T) {
		ioc, err := sonic.NewIO()
		if err != nil {
			rt.Fatalf("INFRA: %v", err)
		}
		defer ioc.Close()
		rawLn, err := sysx.ListenTCP()
		if err != nil {
			rt.Fatalf("INFRA: %v", err)
		}
		defer rawLn.Close()
		dir, _ := os.MkdirTemp("", "verif-fds-")
		defer os.RemoveAll(dir)
		kind := rapid.SampledFrom([]string{"conn", "listener", "packet", "peer", "file", "adapter"}).Draw(rt, "kind")
		var closeA func() error
		fdA := -1
		var extraPeer = -1
		switch kind {
		case "conn":
			c, err := sonic.Dial(ioc, "tcp", rawLn.Addr())
			if err != nil {
				rt.Fatalf("INFRA: %v", err)
			}
			extraPeer, _ = rawLn.Accept(1000)
			closeA, fdA = c.Close, c.RawFd()
		case "listener":
			l, err := sonic.Listen(ioc, "tcp", "127.0.0.1:0", sonicopts.Nonblocking(true))
			if err != nil {
				rt.Fatalf("INFRA: %v", err)
			}
			closeA, fdA = l.Close, l.RawFd()
		case "packet":
			pc, err := sonic.NewPacketConn(ioc, "udp", "127.0.0.1:0")
			if err != nil {
				rt.Fatalf("INFRA: %v", err)
			}
			closeA, fdA = pc.Close, pc.RawFd()
		case "peer":
			mp, err := multicast.NewUDPPeer(ioc, "udp", "127.0.0.1:0")
			if err != nil {
				rt.Fatalf("INFRA: %v", err)
			}
			closeA, fdA = mp.Close, mp.NextLayer().RawFd()
		case "file":
			f, err := sonic.Open(ioc, filepath.Join(dir, "a"), os.O_RDWR|os.O_CREATE, 0o600)
			if err != nil {
				rt.Fatalf("INFRA: %v", err)
			}
			closeA, fdA = f.Close, f.RawFd()
		case "adapter":
			fds, err := syscall.Socketpair(syscall.AF_UNIX, syscall.SOCK_STREAM|syscall.SOCK_CLOEXEC, 0)
			if err != nil {
				rt.Fatalf("INFRA: %v", err)
			}
			extraPeer = fds[1]
			f := os.NewFile(uintptr(fds[0]), "sp")
			nc, err := net.FileConn(f)
			_ = f.Close()
			if err != nil {
				rt.Fatalf("INFRA: %v", err)
			}
			var ad *sonic.AsyncAdapter
			sonic.NewAsyncAdapter(ioc, nc.(*net.UnixConn), nc, func(err error, a *sonic.AsyncAdapter) { ad = a })
			fdA = ad.RawFd()
			closeA = func() error {
				err := ad.Close()
				return err
			}
			// the net.Conn still believes it owns the number the adapter closed: neutralise it once A is closed the first time
			defer func() {
				// park /dev/null on the number only if it is free, then let the net.Conn close that
				if !sysx.FdValid(fdA) {
					_ = syscall.Dup3(devNull, fdA, syscall.O_CLOEXEC)
				}
				_ = nc.Close()
			}()
		}
		if extraPeer >= 0 {
			defer syscall.Close(extraPeer)
		}
		// A may have an operation deferred when it is closed the first time (the stale interest must not matter either)
		_ = closeA()
		var readDone, finalized int32
		peer, fdB, err := orphanWithDeferredRead(ioc, rawLn, &readDone, &finalized)
		if err != nil {
			rt.Fatalf("INFRA: %v", err)
		}
		defer sysx.Reset(peer)
		defer syscall.Close(fdB) // the orphan cannot be closed through a reference; see TestC13_OwnerStaysAlive
		reused := fdB == fdA
		closes := rapid.IntRange(1, 2).Draw(rt, "moreCloses")
		for i := 0; i < closes; i++ {
			_ = closeA()
		}
		if !sysx.FdValid(fdB) {
			rt.Fatalf("a repeated Close of the %s (descriptor %d released long before) closed descriptor %d of another object", kind, fdA, fdB)
		}
		for i := 0; i < 3; i++ {
			runtime.GC()
			time.Sleep(time.Millisecond)
		}
		if f := atomic.LoadInt32(&finalized); f != 0 && atomic.LoadInt32(&readDone) == 0 {
			rt.Fatalf("after Close #%d of a %s (fd %d), the object that received descriptor %d (reused=%v) and has a deferred read was garbage collected although its operation is still in flight (Pending()=%d)", closes+1, kind, fdA, fdB, reused, ioc.Pending())
		}
		_, _ = syscall.Write(peer, []byte("x"))
		for i := 0; i < 100 && atomic.LoadInt32(&readDone) == 0; i++ {
			_ = ioc.RunOneFor(2 * time.Millisecond)
		}
		if n := atomic.LoadInt32(&readDone); n != 1 {
			rt.Fatalf("after repeated Close of a %s whose descriptor number %d was reused (=%v) by another object: that object's deferred read completed %d times", kind, fdA, reused, n)
		}
		cls := []string{"close+orphan"}
		if reused {
			cls = append(cls, "orphan-reused-the-number")
		}
		rec.Case(fmt.Sprintf("co|%s|%d", kind, closes), reused, cls, map[string]any{"closed_kind": kind, "extra_closes": closes, "number_reused": reused})
	})
}

// ---------------------------------------------------------------------------
// (c) for the other kinds of object: packet conn, multicast peer, listener, adapter, FIFO, timer. Each helper builds the
// object, starts an operation that cannot complete yet, and returns only what the harness needs to make it completable
// and to release the descriptor afterwards - no reference to the object survives the call.

type orphanHandle struct {
	complete func() // makes the pending operation completable
	fds      []int  // descriptors to release by number when the case is over
	done     *int32 // callback invocations
	final    *int32 // finalized sentinels
	cleanup  []func()
}

//go:noinline
func orphanOfKind(ioc *sonic.IO, kind string, dir string) (*orphanHandle, error) {
	h := &orphanHandle{done: new(int32), final: new(int32)}
	s := &sentinel{7}
	fin := h.final
	runtime.SetFinalizer(s, func(*sentinel) { atomic.AddInt32(fin, 1) })
	done := h.done
	switch kind {
	case "packet":
		pc, err := sonic.NewPacketConn(ioc, "udp", "127.0.0.1:0")
		if err != nil {
			return nil, err
		}
		_, port, _ := sysx.LocalAddr4(pc.RawFd())
		h.fds = []int{pc.RawFd()}
		pc.AsyncReadFrom(make([]byte, 16), func(error, int, net.Addr) { atomic.AddInt32(done, 1); runtime.KeepAlive(s) })
		h.complete = func() { sendUDP(port) }
	case "peer":
		p, release, err := sysx.ClaimUDPPort()
		if err != nil {
			return nil, err
		}
		h.cleanup = append(h.cleanup, release)
		mp, err := multicast.NewUDPPeer(ioc, "udp", fmt.Sprintf("127.0.0.1:%d", p))
		if err != nil {
			return nil, err
		}
		h.fds = []int{mp.NextLayer().RawFd()}
		mp.AsyncRead(make([]byte, 16), func(error, int, netip.AddrPort) { atomic.AddInt32(done, 1); runtime.KeepAlive(s) })
		h.complete = func() { sendUDP(p) }
	case "listener":
		l, err := sonic.Listen(ioc, "tcp", "127.0.0.1:0", sonicopts.Nonblocking(true))
		if err != nil {
			return nil, err
		}
		_, port, _ := sysx.LocalAddr4(l.RawFd())
		h.fds = []int{l.RawFd()}
		l.AsyncAccept(func(err error, c sonic.Conn) {
			atomic.AddInt32(done, 1)
			runtime.KeepAlive(s)
			if c != nil {
				_ = c.Close()
			}
		})
		h.complete = func() {
			if c, err := sysx.ConnectTCP(port); err == nil {
				h.cleanup = append(h.cleanup, func() { sysx.Reset(c) })
			}
		}
	case "adapter":
		fds, err := syscall.Socketpair(syscall.AF_UNIX, syscall.SOCK_STREAM|syscall.SOCK_CLOEXEC, 0)
		if err != nil {
			return nil, err
		}
		f := os.NewFile(uintptr(fds[0]), "sp")
		nc, err := net.FileConn(f)
		_ = f.Close()
		if err != nil {
			return nil, err
		}
		var ad *sonic.AsyncAdapter
		sonic.NewAsyncAdapter(ioc, nc.(*net.UnixConn), nc, func(err error, a *sonic.AsyncAdapter) { ad = a })
		if ad == nil {
			return nil, fmt.Errorf("NewAsyncAdapter failed")
		}
		ad.AsyncRead(make([]byte, 16), func(error, int) { atomic.AddInt32(done, 1); runtime.KeepAlive(s) })
		peer := fds[1]
		h.complete = func() { _, _ = syscall.Write(peer, []byte("x")) }
		// the net.Conn is the harness's (the adapter only borrows its descriptor): it is closed at the end of the case
		h.cleanup = append(h.cleanup, func() { _ = nc.Close(); _ = syscall.Close(peer) })
	case "adapterWrite":
		fds, err := syscall.Socketpair(syscall.AF_UNIX, syscall.SOCK_STREAM|syscall.SOCK_CLOEXEC, 0)
		if err != nil {
			return nil, err
		}
		f := os.NewFile(uintptr(fds[0]), "sp")
		nc, err := net.FileConn(f)
		_ = f.Close()
		if err != nil {
			return nil, err
		}
		var ad *sonic.AsyncAdapter
		sonic.NewAsyncAdapter(ioc, nc.(*net.UnixConn), nc, func(err error, a *sonic.AsyncAdapter) { ad = a })
		if ad == nil {
			return nil, fmt.Errorf("NewAsyncAdapter failed")
		}
		// an adapter never writes inline: the write waits for the poller to report the socket writable
		ad.AsyncWrite([]byte("hello"), func(error, int) { atomic.AddInt32(done, 1); runtime.KeepAlive(s) })
		peer := fds[1]
		h.complete = func() {}
		h.cleanup = append(h.cleanup, func() { _ = nc.Close(); _ = syscall.Close(peer) })
	case "fifo":
		path := filepath.Join(dir, "fifo")
		if err := syscall.Mkfifo(path, 0o600); err != nil {
			return nil, err
		}
		r, err := sonic.Open(ioc, path, os.O_RDONLY|syscall.O_NONBLOCK, 0)
		if err != nil {
			return nil, err
		}
		w, err := syscall.Open(path, syscall.O_WRONLY|syscall.O_NONBLOCK|syscall.O_CLOEXEC, 0)
		if err != nil {
			return nil, err
		}
		h.fds = []int{r.RawFd()}
		r.AsyncRead(make([]byte, 16), func(error, int) { atomic.AddInt32(done, 1); runtime.KeepAlive(s) })
		h.complete = func() { _, _ = syscall.Write(w, []byte("x")) }
		h.cleanup = append(h.cleanup, func() { _ = syscall.Close(w) })
	case "timer":
		before := census()
		tm, err := sonic.NewTimer(ioc)
		if err != nil {
			return nil, err
		}
		added, _ := sysx.CensusDiff(before, census())
		for _, a := range added {
			n := -1
			fmt.Sscanf(a, "%d->", &n)
			h.fds = append(h.fds, n)
		}
		if err := tm.ScheduleOnce(15*time.Millisecond, func() { atomic.AddInt32(done, 1); runtime.KeepAlive(s) }); err != nil {
			return nil, err
		}
		h.complete = func() { time.Sleep(16 * time.Millisecond) }
	}
	return h, nil
}

func sendUDP(port int) {
	p, err := syscall.Socket(syscall.AF_INET, syscall.SOCK_DGRAM|syscall.SOCK_CLOEXEC, 0)
	if err != nil {
		return
	}
	_ = syscall.Sendto(p, []byte("x"), 0, &syscall.SockaddrInet4{Addr: [4]byte{127, 0, 0, 1}, Port: port})
	_ = syscall.Close(p)
}

func TestC13_OwnerStaysAliveOtherKinds(t *testing.T) {
	rec := evid.For("C13")
	vt.Check(t, 60, func(rt *rapid.T) {
		ioc, err := sonic.NewIO()
		if err != nil {
			rt.Fatalf("INFRA: %v", err)
		}
		defer ioc.Close()
		dir, _ := os.MkdirTemp("", "verif-fds-")
		defer os.RemoveAll(dir)
		kind := rapid.SampledFrom([]string{"packet", "peer", "listener", "adapter", "adapterWrite", "fifo", "timer"}).Draw(rt, "kind")
		h, err := orphanOfKind(ioc, kind, dir)
		if err != nil {
			rt.Fatalf("INFRA: %s: %v", kind, err)
		}
		defer func() {
			for _, fd := range h.fds {
				_ = syscall.Close(fd) // nobody holds the object: release its descriptor by number
			}
			for _, f := range h.cleanup {
				f()
			}
		}()
		if atomic.LoadInt32(h.done) != 0 {
			rt.Fatalf("INFRA: the %s operation was not deferred", kind)
		}
		polls := rapid.IntRange(0, 2).Draw(rt, "pollsBeforeGC")
		for i := 0; i < polls; i++ {
			_, _ = ioc.PollOne()
		}
		for i := 0; i < 3; i++ {
			runtime.GC()
			time.Sleep(time.Millisecond)
		}
		if f := atomic.LoadInt32(h.final); f != 0 && atomic.LoadInt32(h.done) == 0 {
			rt.Fatalf("%s: the object was garbage collected while its operation was in flight (Pending()=%d): the callback's sentinel was finalized", kind, ioc.Pending())
		}
		h.complete()
		for i := 0; i < 100 && atomic.LoadInt32(h.done) == 0; i++ {
			_ = ioc.RunOneFor(2 * time.Millisecond)
		}
		if n := atomic.LoadInt32(h.done); n != 1 {
			rt.Fatalf("%s: the completion was delivered %d times after every reference was dropped and the collector ran (Pending()=%d)", kind, n, ioc.Pending())
		}
		rec.Case(fmt.Sprintf("orphankind|%s|%d", kind, polls), true, []string{"gc-with-operation-in-flight:" + kind}, map[string]any{"kind": kind, "polls_before_gc": polls})
	})
}
