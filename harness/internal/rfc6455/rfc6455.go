// Package rfc6455 is an independent (no sonic import) encoder/parser of
// WebSocket frames written from RFC 6455 §5.2, used as the oracle for the
// websocket checks.
package rfc6455

import (
	"crypto/sha1"
	"encoding/base64"
	"encoding/binary"
	"fmt"
)

const (
	OpContinuation = 0
	OpText         = 1
	OpBinary       = 2
	OpClose        = 8
	OpPing         = 9
	OpPong         = 10
)

type Frame struct {
	Fin, Rsv1, Rsv2, Rsv3 bool
	Opcode                byte
	Masked                bool
	Key                   [4]byte
	Payload               []byte // unmasked application bytes
	// LenBytes is the size of the extended length field: 0, 2 or 8. On encode,
	// -1 means "shortest legal".
	LenBytes int
	// DeclaredLen is the length announced in the header (on encode: if
	// non-zero and != len(Payload), the header lies).
	DeclaredLen uint64
	WireLen     int // bytes this frame occupied on the wire (parse only)
}

func (f Frame) String() string {
	p := f.Payload
	if len(p) > 8 {
		p = p[:8]
	}
	return fmt.Sprintf("{fin=%v rsv=%v%v%v op=%d masked=%v len=%d(%dB) payload=%x..}", f.Fin, f.Rsv1, f.Rsv2, f.Rsv3, f.Opcode, f.Masked, len(f.Payload), f.LenBytes, p)
}

func IsControl(op byte) bool { return op&0x8 != 0 }

func ShortestLenBytes(n uint64) int {
	switch {
	case n <= 125:
		return 0
	case n <= 0xFFFF:
		return 2
	default:
		return 8
	}
}

// Encode serialises f. The payload is masked with f.Key when f.Masked.
func Encode(f Frame) []byte {
	var b []byte
	b0 := f.Opcode & 0x0F
	if f.Fin {
		b0 |= 0x80
	}
	if f.Rsv1 {
		b0 |= 0x40
	}
	if f.Rsv2 {
		b0 |= 0x20
	}
	if f.Rsv3 {
		b0 |= 0x10
	}
	b = append(b, b0)
	n := uint64(len(f.Payload))
	if f.DeclaredLen != 0 {
		n = f.DeclaredLen
	}
	lb := f.LenBytes
	if lb < 0 || (lb == 0 && n > 125) || (lb == 2 && n > 0xFFFF) {
		lb = ShortestLenBytes(n)
	}
	var b1 byte
	if f.Masked {
		b1 = 0x80
	}
	switch lb {
	case 0:
		b = append(b, b1|byte(n))
	case 2:
		b = append(b, b1|126, byte(n>>8), byte(n))
	default:
		var e [8]byte
		binary.BigEndian.PutUint64(e[:], n)
		b = append(b, b1|127)
		b = append(b, e[:]...)
	}
	if f.Masked {
		b = append(b, f.Key[:]...)
		for i, c := range f.Payload {
			b = append(b, c^f.Key[i%4])
		}
	} else {
		b = append(b, f.Payload...)
	}
	return b
}

type Status int

const (
	OK Status = iota
	NeedMore
)

// Header describes what can be known from the first bytes.
type Header struct {
	Frame
	HeaderLen int
	Complete  bool // header fully present
}

// ParseHeader parses as much of the header as is present.
func ParseHeader(b []byte) (h Header) {
	if len(b) < 2 {
		return
	}
	h.Fin = b[0]&0x80 != 0
	h.Rsv1 = b[0]&0x40 != 0
	h.Rsv2 = b[0]&0x20 != 0
	h.Rsv3 = b[0]&0x10 != 0
	h.Opcode = b[0] & 0x0F
	h.Masked = b[1]&0x80 != 0
	l := uint64(b[1] & 0x7F)
	off := 2
	switch l {
	case 126:
		if len(b) < 4 {
			return
		}
		l = uint64(binary.BigEndian.Uint16(b[2:4]))
		off = 4
		h.LenBytes = 2
	case 127:
		if len(b) < 10 {
			return
		}
		l = binary.BigEndian.Uint64(b[2:10])
		off = 10
		h.LenBytes = 8
	}
	h.DeclaredLen = l
	// the declared length is known from here on, even if the mask is missing
	if h.Masked {
		if len(b) < off+4 {
			h.HeaderLen = off + 4
			return
		}
		copy(h.Key[:], b[off:off+4])
		off += 4
	}
	h.HeaderLen = off
	h.Complete = true
	return
}

// LengthKnown tells whether the declared payload length can be read from b.
func LengthKnown(b []byte) (uint64, bool) {
	if len(b) < 2 {
		return 0, false
	}
	switch b[1] & 0x7F {
	case 126:
		if len(b) < 4 {
			return 0, false
		}
		return uint64(binary.BigEndian.Uint16(b[2:4])), true
	case 127:
		if len(b) < 10 {
			return 0, false
		}
		return binary.BigEndian.Uint64(b[2:10]), true
	}
	return uint64(b[1] & 0x7F), true
}

// Parse parses one complete frame from the front of b.
func Parse(b []byte) (Frame, int, Status) {
	h := ParseHeader(b)
	if !h.Complete {
		return Frame{}, 0, NeedMore
	}
	if h.DeclaredLen > uint64(len(b)-h.HeaderLen) {
		return Frame{}, 0, NeedMore
	}
	f := h.Frame
	n := int(h.DeclaredLen)
	f.Payload = make([]byte, n)
	copy(f.Payload, b[h.HeaderLen:h.HeaderLen+n])
	if f.Masked {
		for i := range f.Payload {
			f.Payload[i] ^= f.Key[i%4]
		}
	}
	f.WireLen = h.HeaderLen + n
	return f, f.WireLen, OK
}

// ParseAll parses as many complete frames as b holds and returns the rest.
func ParseAll(b []byte) (frames []Frame, rest []byte) {
	for {
		f, n, st := Parse(b)
		if st != OK {
			return frames, b
		}
		frames = append(frames, f)
		b = b[n:]
	}
}

// ClosePayload builds a close frame body.
func ClosePayload(code uint16, reason string) []byte {
	return append([]byte{byte(code >> 8), byte(code)}, reason...)
}

// AcceptKey computes Sec-WebSocket-Accept from Sec-WebSocket-Key (RFC 6455 §4.2.2).
func AcceptKey(key string) string {
	h := sha1.Sum([]byte(key + "258EAFA5-E914-47DA-95CA-C5AB0DC85B11"))
	return base64.StdEncoding.EncodeToString(h[:])
}
