// Package vt holds the glue between the driver's environment (VERIF_SEED,
// VERIF_SCALE, VERIF_SHARD) and rapid.
package vt

import (
	"flag"
	"fmt"
	"hash/fnv"
	"os"
	"strconv"
	"sync/atomic"
	"testing"
	"time"

	"pgregory.net/rapid"
	"verif/internal/evid"
)

func envInt(name string, def int64) int64 {
	if s := os.Getenv(name); s != "" {
		if v, err := strconv.ParseInt(s, 10, 64); err == nil {
			return v
		}
	}
	return def
}

func envFloat(name string, def float64) float64 {
	if s := os.Getenv(name); s != "" {
		if v, err := strconv.ParseFloat(s, 64); err == nil {
			return v
		}
	}
	return def
}

// Scale is the multiplier the driver applies to every base case count.
func Scale() float64 { return envFloat("VERIF_SCALE", 1) }

// N scales a base count.
func N(base int) int {
	n := int(float64(base) * Scale())
	if n < 1 {
		n = 1
	}
	return n
}

func Thorough() bool { return os.Getenv("VERIF_TIER") == "thorough" }

// Seed derives the PRNG value for a test: VERIF_SEED (0 remapped), shard and test name.
func Seed(name string) uint64 {
	s := uint64(envInt("VERIF_SEED", 1))
	sh := uint64(envInt("VERIF_SHARD", 0))
	h := fnv.New64a()
	_, _ = h.Write([]byte(fmt.Sprintf("%d/%d/%s", s, sh, name)))
	v := h.Sum64()
	if v == 0 {
		v = 1
	}
	return v
}

// Check runs prop under rapid with a case count of base*scale and a seed that
// is a pure function of VERIF_SEED, the shard and the test name.
func Check(t *testing.T, base int, prop func(*rapid.T)) {
	t.Helper()
	_ = flag.Set("rapid.checks", strconv.Itoa(N(base)))
	_ = flag.Set("rapid.seed", strconv.FormatUint(Seed(t.Name()), 10))
	cases := 0
	rapid.Check(t, func(rt *rapid.T) {
		// A harness that leaks a descriptor per case would, in a long run, push descriptor numbers past 1023, where
		// select(2)-based code (sonic's connect among it) stops working: that is the harness's fault, not a finding.
		if cases++; cases%64 == 0 {
			if ents, err := os.ReadDir("/proc/self/fd"); err == nil && len(ents) > 700 {
				rt.Fatalf("INFRA: the harness process holds %d open descriptors after %d cases (descriptor leak in the harness)", len(ents), cases)
			}
		}
		prop(rt)
	})
}

// CheckSteps is Check with the average number of state-machine actions set.
func CheckSteps(t *testing.T, base, steps int, prop func(*rapid.T)) {
	t.Helper()
	_ = flag.Set("rapid.steps", strconv.Itoa(steps))
	defer func() { _ = flag.Set("rapid.steps", "30") }()
	Check(t, base, prop)
}

var expired int32

// Patience bounds a wait that ends in a failure when it expires. The first such expiry in a process is a failure of the
// run whatever happens next; rapid then replays dozens of shrink candidates, each of which would sit through the same
// wait, and its time limit is only looked at between passes. After TimedOut() has been called waits are cut to 700 ms:
// that only affects which reproduction of an already failed run is reported.
func Patience(d time.Duration) time.Duration {
	if atomic.LoadInt32(&expired) != 0 && d > 700*time.Millisecond {
		return 700 * time.Millisecond
	}
	return d
}

// TimedOut records that a Patience wait expired (call it right before failing).
func TimedOut() { atomic.StoreInt32(&expired, 1) }

// Main is the TestMain body shared by the harness packages.
func Main(m *testing.M) {
	code := m.Run()
	evid.Flush()
	os.Exit(code)
}
