// Package memstream is a scripted in-memory sonic.Stream: generated chunks on
// the inbound side, captured bytes on the outbound side, and asynchronous
// completions that are either delivered inline or parked until the harness
// delivers them. It behaves like the real transports behind the interface:
// sync reads return (n>0,nil) or (0,err); AsyncWriteAll is all-or-error and
// reads the caller's buffer when the write actually happens.
package memstream

import (
	"errors"
	"io"

	"github.com/talostrading/sonic"
	"github.com/talostrading/sonic/sonicerrors"
)

var ErrInjected = errors.New("memstream: injected transport error")

// ErrNoRoom is returned when the consumer keeps presenting an empty buffer although bytes are pending: it made no room
// for the rest of what it is waiting for and would spin forever.
var ErrNoRoom = errors.New("memstream: reader presented an empty buffer 64 times in a row while bytes were pending (it made no room for the data it is waiting for)")

type Stream struct {
	in    [][]byte
	InErr error // returned once the script is exhausted (default io.EOF)

	Out []byte // every byte written, in order

	// Inline decides, per asynchronous operation, whether it completes inside
	// the initiating call (true) or is parked until Deliver (false). nil = inline.
	Inline func(write bool) bool

	// WriteErrAt: the k-th transport write (0-based, counting sync and async) fails. -1 = never.
	WriteErrAt int
	// SyncWritePlan scripts the synchronous Write calls like a non-blocking socket: entry n>0 accepts at most n bytes
	// (a short write), entry 0 reports sonicerrors.ErrWouldBlock with nothing written. Once exhausted everything is accepted.
	SyncWritePlan []int
	writes        int

	parked       []*op
	parkedReads  int
	parkedWrites int

	// OverlapReads/OverlapWrites count operations started while one of the
	// same direction was still parked (a real transport has one slot per direction).
	OverlapReads, OverlapWrites int
	Closed                      bool
	SyncReads, AsyncReads       int
	zeroReads                   int

	// OnSyncRead, if set, runs at the start of every synchronous Read: the moment the reader goes back to the transport
	// for more bytes.
	OnSyncRead func()
	// OnAsyncRead, if set, runs when an asynchronous read is started on the transport.
	OnAsyncRead func()
}

type op struct {
	write bool
	run   func()
}

var _ sonic.Stream = &Stream{}

func New(chunks [][]byte) *Stream {
	return &Stream{in: chunks, InErr: io.EOF, WriteErrAt: -1}
}

// Feed appends inbound chunks.
func (s *Stream) Feed(chunks ...[]byte) { s.in = append(s.in, chunks...) }

// AppendToLast appends b to the last inbound chunk that has not been read completely, so that it arrives in the same
// read as the end of what was fed before; false if nothing is waiting.
func (s *Stream) AppendToLast(b []byte) bool {
	if len(s.in) == 0 || len(s.in[len(s.in)-1]) == 0 {
		return false
	}
	last := len(s.in) - 1
	s.in[last] = append(append([]byte(nil), s.in[last]...), b...)
	return true
}

func (s *Stream) InboundLeft() int {
	n := 0
	for _, c := range s.in {
		n += len(c)
	}
	return n
}

func (s *Stream) read(b []byte) (int, error) {
	for len(s.in) > 0 && len(s.in[0]) == 0 {
		s.in = s.in[1:]
	}
	if len(b) == 0 {
		if len(s.in) > 0 {
			s.zeroReads++
			if s.zeroReads > 64 {
				return 0, ErrNoRoom
			}
		}
		return 0, nil
	}
	s.zeroReads = 0
	if len(s.in) == 0 {
		return 0, s.InErr
	}
	n := copy(b, s.in[0])
	s.in[0] = s.in[0][n:]
	return n, nil
}

func (s *Stream) Read(b []byte) (int, error) {
	s.SyncReads++
	if s.OnSyncRead != nil {
		s.OnSyncRead()
	}
	return s.read(b)
}

func (s *Stream) inline(write bool) bool {
	return s.Inline == nil || s.Inline(write)
}

func (s *Stream) start(write bool, run func()) {
	if write && s.parkedWrites > 0 {
		s.OverlapWrites++
	}
	if !write && s.parkedReads > 0 {
		s.OverlapReads++
	}
	if s.inline(write) && !(write && s.parkedWrites > 0) && !(!write && s.parkedReads > 0) {
		run()
		return
	}
	if write {
		s.parkedWrites++
	} else {
		s.parkedReads++
	}
	s.parked = append(s.parked, &op{write: write, run: run})
}

// Parked returns how many completions wait for Deliver.
func (s *Stream) Parked() int { return len(s.parked) }

// Deliver completes the oldest parked operation; false if none.
func (s *Stream) Deliver() bool {
	if len(s.parked) == 0 {
		return false
	}
	o := s.parked[0]
	s.parked = s.parked[1:]
	if o.write {
		s.parkedWrites--
	} else {
		s.parkedReads--
	}
	o.run()
	return true
}

// DeliverAll delivers until nothing is parked (bounded).
func (s *Stream) DeliverAll(max int) int {
	n := 0
	for n < max && s.Deliver() {
		n++
	}
	return n
}

func (s *Stream) AsyncRead(b []byte, cb sonic.AsyncCallback) {
	s.AsyncReads++
	if s.OnAsyncRead != nil {
		s.OnAsyncRead()
	}
	s.start(false, func() {
		n, err := s.read(b)
		cb(err, n)
	})
}

func (s *Stream) AsyncReadAll(b []byte, cb sonic.AsyncCallback) {
	s.AsyncReads++
	s.start(false, func() {
		total := 0
		for total < len(b) {
			n, err := s.read(b[total:])
			total += n
			if err != nil {
				cb(err, total)
				return
			}
		}
		cb(nil, total)
	})
}

func (s *Stream) write(b []byte) (int, error) {
	k := s.writes
	s.writes++
	if k == s.WriteErrAt {
		return 0, ErrInjected
	}
	s.Out = append(s.Out, b...)
	return len(b), nil
}

func (s *Stream) Write(b []byte) (int, error) {
	if len(s.SyncWritePlan) > 0 && len(b) > 0 {
		n := s.SyncWritePlan[0]
		s.SyncWritePlan = s.SyncWritePlan[1:]
		if n == 0 {
			return 0, sonicerrors.ErrWouldBlock
		}
		if n < len(b) {
			b = b[:n]
		}
	}
	return s.write(b)
}

func (s *Stream) AsyncWrite(b []byte, cb sonic.AsyncCallback) {
	s.start(true, func() {
		n, err := s.write(b)
		cb(err, n)
	})
}

func (s *Stream) AsyncWriteAll(b []byte, cb sonic.AsyncCallback) {
	s.start(true, func() {
		n, err := s.write(b) // reads b now, like a deferred write(2) would
		cb(err, n)
	})
}

func (s *Stream) Cancel() {
	ops := s.parked
	s.parked = nil
	s.parkedReads, s.parkedWrites = 0, 0
	_ = ops // cancelled operations are dropped silently; the websocket layer never relies on it
}

func (s *Stream) Close() error {
	s.Closed = true
	return nil
}

func (s *Stream) RawFd() int { return -1 }
