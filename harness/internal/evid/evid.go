// Package evid collects, per property, what a run actually explored and writes
// it as JSON for the driver to merge into /verif/evidence/<id>.json.
package evid

import (
	"encoding/json"
	"fmt"
	"hash/fnv"
	"os"
	"path/filepath"
	"sort"
	"sync"
)

const maxSamplesPerClass = 2
const maxSamples = 24

type Rec struct {
	mu          sync.Mutex
	Property    string
	Evaluations int
	Nontrivial  int
	Hashes      map[uint64]struct{}
	Classes     map[string]int
	samples     map[string][]any
	nsamples    int
	Excluded    int
	Extra       map[string]int
	Rule        string
	Assumptions []string
	Exhaustive  *bool
}

var (
	regMu sync.Mutex
	reg   = map[string]*Rec{}
)

// For returns the recorder of a property.
func For(prop string) *Rec {
	regMu.Lock()
	defer regMu.Unlock()
	r := reg[prop]
	if r == nil {
		r = &Rec{Property: prop, Hashes: map[uint64]struct{}{}, Classes: map[string]int{}, samples: map[string][]any{}, Extra: map[string]int{}}
		reg[prop] = r
	}
	return r
}

func (r *Rec) SetRule(rule string) {
	r.mu.Lock()
	if r.Rule == "" {
		r.Rule = rule
	} else if r.Rule != rule && len(r.Rule) < 4000 {
		// several sub-checks of one property: concatenate distinct rules
		if !contains(r.Rule, rule) {
			r.Rule += " || " + rule
		}
	}
	r.mu.Unlock()
}

func contains(a, b string) bool {
	return len(b) <= len(a) && (a == b || indexOf(a, b) >= 0)
}

func indexOf(a, b string) int {
	for i := 0; i+len(b) <= len(a); i++ {
		if a[i:i+len(b)] == b {
			return i
		}
	}
	return -1
}

func (r *Rec) Assume(s string) {
	r.mu.Lock()
	for _, a := range r.Assumptions {
		if a == s {
			r.mu.Unlock()
			return
		}
	}
	r.Assumptions = append(r.Assumptions, s)
	r.mu.Unlock()
}

func (r *Rec) SetExhaustive(b bool) {
	r.mu.Lock()
	r.Exhaustive = &b
	r.mu.Unlock()
}

// Case records one generated case. key identifies the case (distinctness is
// decided on its hash), nontrivial applies the property's stated rule, classes
// are labels for the distribution histogram, sample is stored for the first few
// cases of each class.
func (r *Rec) Case(key string, nontrivial bool, classes []string, sample any) {
	h := fnv.New64a()
	_, _ = h.Write([]byte(key))
	hv := h.Sum64()
	r.mu.Lock()
	defer r.mu.Unlock()
	r.Evaluations++
	if nontrivial {
		r.Nontrivial++
		r.Hashes[hv] = struct{}{}
	}
	cl := "trivial"
	if nontrivial {
		cl = "nontrivial"
	}
	r.Classes[cl]++
	for _, c := range classes {
		r.Classes[c]++
	}
	if sample != nil && r.nsamples < maxSamples {
		k := cl
		if len(classes) > 0 {
			k = cl + "/" + classes[0]
		}
		if len(r.samples[k]) < maxSamplesPerClass {
			r.samples[k] = append(r.samples[k], map[string]any{"class": k, "case": sample})
			r.nsamples++
		}
	}
}

func (r *Rec) ExcludedKnown(n int) {
	r.mu.Lock()
	r.Excluded += n
	r.mu.Unlock()
}

func (r *Rec) Count(name string, n int) {
	r.mu.Lock()
	r.Extra[name] += n
	r.mu.Unlock()
}

type out struct {
	Property    string         `json:"property_id"`
	Evaluations int            `json:"evaluations"`
	Nontrivial  int            `json:"nontrivial_total"`
	Hashes      []uint64       `json:"hashes"`
	Classes     map[string]int `json:"classes"`
	Samples     []any          `json:"samples"`
	Excluded    int            `json:"excluded_known"`
	Extra       map[string]int `json:"extra"`
	Rule        string         `json:"rule"`
	Assumptions []string       `json:"assumptions"`
	Exhaustive  *bool          `json:"exhaustive,omitempty"`
}

// Flush writes one file per property into $VERIF_EVID_DIR (no-op if unset).
func Flush() {
	dir := os.Getenv("VERIF_EVID_DIR")
	if dir == "" {
		return
	}
	_ = os.MkdirAll(dir, 0o755)
	regMu.Lock()
	defer regMu.Unlock()
	for _, r := range reg {
		r.mu.Lock()
		o := out{Property: r.Property, Evaluations: r.Evaluations, Nontrivial: r.Nontrivial, Classes: r.Classes,
			Excluded: r.Excluded, Extra: r.Extra, Rule: r.Rule, Assumptions: r.Assumptions, Exhaustive: r.Exhaustive}
		for h := range r.Hashes {
			o.Hashes = append(o.Hashes, h)
		}
		sort.Slice(o.Hashes, func(i, j int) bool { return o.Hashes[i] < o.Hashes[j] })
		keys := make([]string, 0, len(r.samples))
		for k := range r.samples {
			keys = append(keys, k)
		}
		sort.Strings(keys)
		for _, k := range keys {
			o.Samples = append(o.Samples, r.samples[k]...)
		}
		r.mu.Unlock()
		b, err := json.Marshal(o)
		if err != nil {
			fmt.Fprintf(os.Stderr, "evid: %v\n", err)
			continue
		}
		name := filepath.Join(dir, fmt.Sprintf("%s.%d.json", r.Property, os.Getpid()))
		if err := os.WriteFile(name, b, 0o644); err != nil {
			fmt.Fprintf(os.Stderr, "evid: %v\n", err)
		}
	}
}
