// Package known reads /verif/KNOWN_FINDINGS.txt (never writes it) and wires
// deterministic probes of recorded defects to the KNOWN-FINDING protocol.
package known

import (
	"bufio"
	"fmt"
	"os"
	"path/filepath"
	"runtime"
	"strings"
	"sync"
	"testing"
)

type entry struct {
	prop, key, text string
}

var (
	once    sync.Once
	entries []entry
)

func file() string {
	if p := os.Getenv("VERIF_KNOWN"); p != "" {
		return p
	}
	_, self, _, _ := runtime.Caller(0)
	// .../harness/internal/known/known.go -> /verif/KNOWN_FINDINGS.txt
	return filepath.Join(filepath.Dir(self), "..", "..", "..", "KNOWN_FINDINGS.txt")
}

func load() {
	f, err := os.Open(file())
	if err != nil {
		return
	}
	defer f.Close()
	sc := bufio.NewScanner(f)
	for sc.Scan() {
		line := strings.TrimSpace(sc.Text())
		if !strings.HasPrefix(line, "known:") {
			continue // "fixed:" entries and comments suppress nothing
		}
		var e entry
		rest := strings.Fields(strings.TrimPrefix(line, "known:"))
		var text []string
		for _, w := range rest {
			switch {
			case strings.HasPrefix(w, "property=") && e.prop == "":
				e.prop = strings.TrimPrefix(w, "property=")
			case strings.HasPrefix(w, "key=") && e.key == "":
				e.key = strings.TrimPrefix(w, "key=")
			default:
				text = append(text, w)
			}
		}
		e.text = strings.Join(text, " ")
		if e.prop != "" && e.key != "" {
			entries = append(entries, e)
		}
	}
}

// Listed tells whether (prop,key) is recorded as a known, unrepaired finding.
func Listed(prop, key string) bool {
	once.Do(load)
	for _, e := range entries {
		if e.prop == prop && e.key == key {
			return true
		}
	}
	return false
}

var printed sync.Map

// Probe reports the outcome of a deterministic reproduction of one recorded
// root cause. reproduced=true means the defect is present in the tree under
// test. Listed → one KNOWN-FINDING line, test passes. Not listed → violation.
func Probe(t testing.TB, prop, key string, reproduced bool, what string) {
	t.Helper()
	if !reproduced {
		return
	}
	if Listed(prop, key) {
		if _, dup := printed.LoadOrStore(prop+"/"+key, true); !dup {
			fmt.Printf("KNOWN-FINDING: property=%s key=%s %s\n", prop, key, what)
		}
		return
	}
	t.Fatalf("probe %s/%s: %s", prop, key, what)
}
