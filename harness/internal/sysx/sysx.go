// Package sysx holds the raw-syscall helpers of the harness: readiness oracle
// (poll(2)), raw TCP/UDP peers, buffer sizing, descriptor census.
package sysx

import (
	"fmt"
	"net"
	"os"
	"sort"
	"strconv"
	"strings"
	"syscall"

	"golang.org/x/sys/unix"
)

// PollFd asks the kernel whether fd is ready for the given events, waiting at
// most timeoutMs. It retries on EINTR. Returns the revents mask.
func PollFd(fd int, events int16, timeoutMs int) (int16, error) {
	fds := []unix.PollFd{{Fd: int32(fd), Events: events}}
	for {
		n, err := unix.Poll(fds, timeoutMs)
		if err == unix.EINTR {
			continue
		}
		if err != nil {
			return 0, err
		}
		if n == 0 {
			return 0, nil
		}
		return fds[0].Revents, nil
	}
}

const (
	POLLIN    = unix.POLLIN
	POLLOUT   = unix.POLLOUT
	POLLHUP   = unix.POLLHUP
	POLLERR   = unix.POLLERR
	POLLRDHUP = unix.POLLRDHUP
)

// WaitReadable waits until fd reports POLLIN/POLLHUP/POLLERR (true) or the timeout passes (false).
func WaitReadable(fd int, timeoutMs int) bool {
	r, err := PollFd(fd, POLLIN, timeoutMs)
	return err == nil && r&(POLLIN|POLLHUP|POLLERR) != 0
}

// WaitWritable waits until fd reports POLLOUT/POLLHUP/POLLERR.
func WaitWritable(fd int, timeoutMs int) bool {
	r, err := PollFd(fd, POLLOUT, timeoutMs)
	return err == nil && r&(POLLOUT|POLLHUP|POLLERR) != 0
}

// SetBuf shrinks (or sets) the kernel socket buffers; 0 leaves a side alone.
func SetBuf(fd, snd, rcv int) {
	if snd > 0 {
		_ = syscall.SetsockoptInt(fd, syscall.SOL_SOCKET, syscall.SO_SNDBUF, snd)
	}
	if rcv > 0 {
		_ = syscall.SetsockoptInt(fd, syscall.SOL_SOCKET, syscall.SO_RCVBUF, rcv)
	}
}

// LocalAddr4 returns the bound IPv4 address and port of fd.
func LocalAddr4(fd int) (net.IP, int, error) {
	sa, err := syscall.Getsockname(fd)
	if err != nil {
		return nil, 0, err
	}
	if a, ok := sa.(*syscall.SockaddrInet4); ok {
		return net.IPv4(a.Addr[0], a.Addr[1], a.Addr[2], a.Addr[3]), a.Port, nil
	}
	return nil, 0, fmt.Errorf("not an IPv4 socket")
}

// RawTCPListener is a blocking-free raw listening socket on 127.0.0.1.
type RawTCPListener struct {
	Fd   int
	Port int
}

func ListenTCP() (*RawTCPListener, error) {
	fd, err := syscall.Socket(syscall.AF_INET, syscall.SOCK_STREAM|syscall.SOCK_NONBLOCK|syscall.SOCK_CLOEXEC, 0)
	if err != nil {
		return nil, err
	}
	_ = syscall.SetsockoptInt(fd, syscall.SOL_SOCKET, syscall.SO_REUSEADDR, 1)
	if err := syscall.Bind(fd, &syscall.SockaddrInet4{Addr: [4]byte{127, 0, 0, 1}}); err != nil {
		_ = syscall.Close(fd)
		return nil, err
	}
	if err := syscall.Listen(fd, 128); err != nil {
		_ = syscall.Close(fd)
		return nil, err
	}
	_, port, err := LocalAddr4(fd)
	if err != nil {
		_ = syscall.Close(fd)
		return nil, err
	}
	return &RawTCPListener{Fd: fd, Port: port}, nil
}

func (l *RawTCPListener) Addr() string { return "127.0.0.1:" + strconv.Itoa(l.Port) }

// Accept waits (poll) for one connection and returns a non-blocking fd.
func (l *RawTCPListener) Accept(timeoutMs int) (int, error) {
	if !WaitReadable(l.Fd, timeoutMs) {
		return -1, fmt.Errorf("no connection within %d ms", timeoutMs)
	}
	fd, _, err := syscall.Accept4(l.Fd, syscall.SOCK_NONBLOCK|syscall.SOCK_CLOEXEC)
	return fd, err
}

func (l *RawTCPListener) Close() { _ = syscall.Close(l.Fd) }

// ConnectTCP makes a raw non-blocking client socket connected to 127.0.0.1:port.
func ConnectTCP(port int) (int, error) {
	fd, err := syscall.Socket(syscall.AF_INET, syscall.SOCK_STREAM|syscall.SOCK_CLOEXEC, 0)
	if err != nil {
		return -1, err
	}
	if err := syscall.Connect(fd, &syscall.SockaddrInet4{Addr: [4]byte{127, 0, 0, 1}, Port: port}); err != nil {
		_ = syscall.Close(fd)
		return -1, err
	}
	_ = syscall.SetNonblock(fd, true)
	return fd, nil
}

// WriteSome writes as much of b as the kernel takes without blocking.
func WriteSome(fd int, b []byte) int {
	total := 0
	for total < len(b) {
		n, err := syscall.Write(fd, b[total:])
		if n > 0 {
			total += n
		}
		if err == syscall.EINTR {
			continue
		}
		if err != nil || n <= 0 {
			break
		}
	}
	return total
}

// ReadSome drains up to max bytes that are available right now.
func ReadSome(fd int, max int) []byte {
	var out []byte
	buf := make([]byte, 64*1024)
	for len(out) < max {
		want := max - len(out)
		if want > len(buf) {
			want = len(buf)
		}
		n, err := syscall.Read(fd, buf[:want])
		if n > 0 {
			out = append(out, buf[:n]...)
		}
		if err == syscall.EINTR {
			continue
		}
		if err != nil || n <= 0 {
			break
		}
	}
	return out
}

// NoLinger arranges for a later close of fd to send an RST instead of going through TIME_WAIT (thousands of
// short-lived loopback connections per minute would otherwise exhaust the ephemeral ports).
func NoLinger(fd int) {
	_ = syscall.SetsockoptLinger(fd, syscall.SOL_SOCKET, syscall.SO_LINGER, &syscall.Linger{Onoff: 1, Linger: 0})
}

// Reset closes fd with SO_LINGER 0 so that the peer sees an RST.
func Reset(fd int) {
	_ = syscall.SetsockoptLinger(fd, syscall.SOL_SOCKET, syscall.SO_LINGER, &syscall.Linger{Onoff: 1, Linger: 0})
	_ = syscall.Close(fd)
}

// FdCensus maps every open descriptor number to its link target.
func FdCensus() map[int]string {
	out := map[int]string{}
	ents, err := os.ReadDir("/proc/self/fd")
	if err != nil {
		return out
	}
	for _, e := range ents {
		n, err := strconv.Atoi(e.Name())
		if err != nil {
			continue
		}
		target, err := os.Readlink("/proc/self/fd/" + e.Name())
		if err != nil {
			continue // the directory handle itself
		}
		out[n] = target
	}
	return out
}

// CensusDiff lists descriptors present in after but not in before (leaks) and
// the other way round (closed), as sorted strings.
func CensusDiff(before, after map[int]string) (added, removed []string) {
	for fd, t := range after {
		if _, ok := before[fd]; !ok {
			added = append(added, fmt.Sprintf("%d->%s", fd, t))
		}
	}
	for fd, t := range before {
		if _, ok := after[fd]; !ok {
			removed = append(removed, fmt.Sprintf("%d->%s", fd, t))
		}
	}
	sort.Strings(added)
	sort.Strings(removed)
	return
}

// FdValid reports whether fd is an open descriptor.
func FdValid(fd int) bool {
	_, err := unix.FcntlInt(uintptr(fd), unix.F_GETFD, 0)
	return err == nil
}

// Inode identifies the open file behind fd.
func Inode(fd int) (dev uint64, ino uint64, ok bool) {
	var st syscall.Stat_t
	if err := syscall.Fstat(fd, &st); err != nil {
		return 0, 0, false
	}
	return uint64(st.Dev), st.Ino, true
}

// Unread returns the number of bytes queued for reading on fd (FIONREAD), -1 if unknown.
func Unread(fd int) int {
	n, err := unix.IoctlGetInt(fd, unix.TIOCINQ)
	if err != nil {
		return -1
	}
	return n
}

// Unsent returns the number of bytes queued in the send buffer of socket fd (TIOCOUTQ), -1 if unknown.
func Unsent(fd int) int {
	n, err := unix.IoctlGetInt(fd, unix.TIOCOUTQ)
	if err != nil {
		return -1
	}
	return n
}

var portCounter uint32

// ClaimUDPPort hands out a UDP port below the kernel's ephemeral range that no other harness process is using (an
// advisory lock on a file per port, held until release) and on which nothing is bound at the moment. sonic's UDPPeer
// sets SO_REUSEPORT, and a bind to port 0 with that option may be given a port that another such socket of the same user
// - in another test process - already has; the kernel then spreads the unicast datagrams over both. Ports taken from
// here cannot be handed out by the kernel's port-0 selection.
func ClaimUDPPort() (port int, release func(), err error) {
	_ = os.MkdirAll("/tmp/verif-udp-ports", 0o777)
	for try := 0; try < 4000; try++ {
		portCounter++
		p := 20000 + int((uint32(os.Getpid())*7919+portCounter*31)%12000)
		f, err := os.OpenFile(fmt.Sprintf("/tmp/verif-udp-ports/%d", p), os.O_CREATE|os.O_RDWR, 0o666)
		if err != nil {
			return 0, nil, err
		}
		if syscall.Flock(int(f.Fd()), syscall.LOCK_EX|syscall.LOCK_NB) != nil {
			_ = f.Close()
			continue
		}
		if udpPortInUse(p) {
			_ = f.Close()
			continue
		}
		return p, func() { _ = f.Close() }, nil
	}
	return 0, nil, fmt.Errorf("no free UDP port found between 20000 and 32000")
}

func udpPortInUse(port int) bool {
	b, err := os.ReadFile("/proc/net/udp")
	if err != nil {
		return false
	}
	want := fmt.Sprintf(":%04X", port)
	for _, line := range strings.Split(string(b), "\n")[1:] {
		f := strings.Fields(line)
		if len(f) > 2 && strings.HasSuffix(f[1], want) {
			return true
		}
	}
	return false
}
