package post

// C05 — Post is thread-safe, exactly-once, ordered and wakes the loop.
// Built with -race: a data race report fails the test.

import (
	"fmt"
	"net"
	"os"
	"runtime"
	"sync"
	"sync/atomic"
	"syscall"
	"testing"
	"time"

	"github.com/talostrading/sonic"
	"golang.org/x/sys/unix"
	"pgregory.net/rapid"
	"verif/internal/evid"
	"verif/internal/vt"
)

type posterPlan struct {
	N      int
	Yield  []int // per post: 0 none, 1 Gosched, 2 sleep 20us
	Sync   int   // >0: after every Sync posts the poster waits until all its handlers have run (every such round ends with a post that no later post follows)
	Nested []int // per post: 0 none, 1 post again from the handler (loop thread), 2 handler spawns a goroutine that posts, 3 two levels on the loop thread
}

type execRec struct {
	poster, seq int
	tid         int
}

const watchdog = 10 * time.Second

func TestC05_Post(t *testing.T) {
	rec := evid.For("C05")
	rec.SetRule("rapid-generated plans: 1..8 poster goroutines x 1..200 Posts each with generated yield points (Gosched / 20us sleep), optional rounds (after every 1..3 posts the poster waits until its handlers ran, so that many posts are the last one for a while) and nesting (handler posts again on the loop thread, handler spawns a goroutine that posts, two levels), while the loop goroutine (locked to its OS thread) runs a generated script of PollOne / RunOneFor(1ms) / blocking RunOne and arms and cancels a timer and a socket read (loop-thread accounting overlapping Post accounting); oracle: every handler id runs exactly once, on the loop thread (gettid), per-poster sequence numbers strictly increasing, a loop blocked in RunOne is woken by a later Post, the case finishes within a 10 s watchdog (deadlock = violation), Pending()==0 and Posted()==0 at quiescence, inside every handler Posted()>=1 and Pending()>=Posted(), Posted() sampled continuously from a third goroutine stays within [returned Posts - finished handlers, started Posts - finished handlers + 1], and the -race build reports no data race; TestC05_AsyncHandshakeReturnsToLoop: the library's own caller of Post - websocket.AsyncHandshake against a minimal server (conforming or 403, 0..3 ms delay) while 0..3 unrelated goroutines post and the loop either blocks in RunOne or polls: callback once, on the loop thread, loop woken, State() right inside the callback, Posted()==0 and Pending()==0 afterwards; non-trivial = >=2 posters overlapping loop-thread arm/disarm activity, or a nested post, or (handshake test) a blocked loop or concurrent posters; distinct = hash of the plan. The OS scheduler, not the harness, picks the interleavings: the data-race half is timing-independent (happens-before analysis), the rest is statistical.")
	vt.Check(t, 150, func(rt *rapid.T) {
		np := rapid.IntRange(1, 8).Draw(rt, "posters")
		plans := make([]posterPlan, np)
		nested := false
		for i := range plans {
			n := rapid.OneOf(rapid.IntRange(1, 20), rapid.IntRange(1, 200)).Draw(rt, "n")
			p := posterPlan{N: n}
			if rapid.Bool().Draw(rt, "rounds") {
				p.Sync = rapid.IntRange(1, 3).Draw(rt, "sync")
			}
			ymode := rapid.IntRange(0, 2).Draw(rt, "ymode")
			nmode := rapid.SampledFrom([]int{0, 0, 1, 2, 3}).Draw(rt, "nmode")
			for j := 0; j < n; j++ {
				y, k := 0, 0
				if ymode > 0 && j%3 == 0 {
					y = ymode
				}
				if nmode > 0 && j%5 == 1 {
					k = nmode
					nested = true
				}
				p.Yield = append(p.Yield, y)
				p.Nested = append(p.Nested, k)
			}
			plans[i] = p
		}
		script := rapid.SliceOfN(rapid.SampledFrom([]string{"poll", "poll", "runfor", "runone", "timer", "timercancel", "read", "readcancel"}), 4, 24).Draw(rt, "script")
		script = append(script, "poll") // the loop must keep being run: every script polls at least once per round

		ioc, err := sonic.NewIO()
		if err != nil {
			rt.Fatalf("INFRA: NewIO: %v", err)
		}
		defer ioc.Close()
		// a socket object for loop-thread arm/disarm activity
		fds, err := syscall.Socketpair(syscall.AF_UNIX, syscall.SOCK_STREAM|syscall.SOCK_CLOEXEC, 0)
		if err != nil {
			rt.Fatalf("INFRA: socketpair: %v", err)
		}
		f := os.NewFile(uintptr(fds[0]), "sp")
		nc, err := net.FileConn(f)
		_ = f.Close()
		if err != nil {
			rt.Fatalf("INFRA: FileConn: %v", err)
		}
		defer nc.Close()
		defer syscall.Close(fds[1])
		var ad *sonic.AsyncAdapter
		sonic.NewAsyncAdapter(ioc, nc.(*net.UnixConn), nc, func(err error, a *sonic.AsyncAdapter) { ad = a })
		tm, err := sonic.NewTimer(ioc)
		if err != nil {
			rt.Fatalf("INFRA: NewTimer: %v", err)
		}

		var (
			mu        sync.Mutex
			execs     = map[[3]int][]execRec{} // (poster, seq, level) -> executions
			order     = map[int][]int{}        // poster -> seqs in execution order (level 0 only)
			expected  int64
			executed  int64
			loopTid   int64
			stop      int32
			armCount  int64
			execBy    = make([]int64, np) // level-0 handlers executed, per poster
			postErrs  int64
			returned  int64 // Post calls that have returned successfully
			loopDone  = make(chan struct{})
			postersWG sync.WaitGroup
			nestedWG  sync.WaitGroup
		)
		var accounting atomic.Value
		var post func(poster, seq, level, mode int)
		post = func(poster, seq, level, mode int) {
			atomic.AddInt64(&expected, 1)
			err := ioc.Post(func() {
				tid := unix.Gettid()
				// "leaves Pending() and Posted() exact": seen from inside a posted handler (on the loop goroutine, the only
				// one that ever lowers either number) this handler is still counted by both, and every handler Posted()
				// counts is also counted by Pending(), which is read second and can only have grown in between
				if po, pe := ioc.Posted(), ioc.Pending(); po < 1 || pe < int64(po) {
					accounting.CompareAndSwap(nil, fmt.Sprintf("inside the handler (poster %d, seq %d, level %d): Posted()=%d, Pending()=%d; a handler that is running or queued must be counted by both", poster, seq, level, po, pe))
				}
				mu.Lock()
				k := [3]int{poster, seq, level}
				execs[k] = append(execs[k], execRec{poster, seq, tid})
				if level == 0 {
					order[poster] = append(order[poster], seq)
				}
				mu.Unlock()
				if level == 0 {
					atomic.AddInt64(&execBy[poster], 1)
				}
				switch {
				case mode == 1 && level < 1, mode == 3 && level < 2:
					post(poster, seq, level+1, mode) // Post from inside a posted handler, on the loop thread
				case mode == 2 && level < 1:
					nestedWG.Add(1)
					go func() {
						defer nestedWG.Done()
						post(poster, seq, level+1, mode)
					}()
				}
				atomic.AddInt64(&executed, 1)
			})
			if err != nil {
				atomic.AddInt64(&postErrs, 1)
			} else {
				atomic.AddInt64(&returned, 1)
			}
		}

		go func() {
			runtime.LockOSThread()
			defer runtime.UnlockOSThread()
			defer close(loopDone)
			atomic.StoreInt64(&loopTid, int64(unix.Gettid()))
			reading, scheduled := false, false
			buf := make([]byte, 8)
			i := 0
			for atomic.LoadInt32(&stop) == 0 {
				switch script[i%len(script)] {
				case "poll":
					_, _ = ioc.PollOne()
				case "runfor":
					_ = ioc.RunOneFor(time.Millisecond)
				case "runone":
					// blocks until something happens: only a Post (or the armed timer) can wake it
					_ = ioc.RunOne()
				case "timer":
					if !scheduled {
						if tm.ScheduleOnce(2*time.Millisecond, func() { scheduled = false }) == nil {
							scheduled = true
							atomic.AddInt64(&armCount, 1)
						}
					}
				case "timercancel":
					if scheduled {
						_ = tm.Cancel()
						scheduled = false
						atomic.AddInt64(&armCount, 1)
					}
				case "read":
					if !reading {
						reading = true
						ad.AsyncRead(buf, func(error, int) { reading = false })
						atomic.AddInt64(&armCount, 1)
					}
				case "readcancel":
					if reading {
						ad.Cancel()
						atomic.AddInt64(&armCount, 1)
					}
				}
				i++
			}
			if scheduled {
				_ = tm.Cancel()
			}
			if reading {
				ad.Cancel()
			}
			_ = tm.Close()
			_ = ad.Close()
		}()
		for atomic.LoadInt64(&loopTid) == 0 {
			runtime.Gosched()
		}
		// whatever happens, do not leave a spinning loop goroutine behind
		defer atomic.StoreInt32(&stop, 1)

		for pi, pl := range plans {
			postersWG.Add(1)
			go func(pi int, pl posterPlan) {
				defer postersWG.Done()
				for j := 0; j < pl.N; j++ {
					post(pi, j, 0, pl.Nested[j])
					if pl.Sync > 0 && (j+1)%pl.Sync == 0 {
						// end of a round: nothing more comes from this poster until the loop has run what it posted
						for t0 := time.Now(); atomic.LoadInt64(&execBy[pi]) < int64(j+1); {
							if time.Since(t0) > watchdog+time.Second {
								return // the main goroutine's watchdog reports it
							}
							time.Sleep(20 * time.Microsecond)
						}
					}
					switch pl.Yield[j] {
					case 1:
						runtime.Gosched()
					case 2:
						time.Sleep(20 * time.Microsecond)
					}
				}
			}(pi, pl)
		}
		// Posted() sampled from yet another goroutine while all this goes on: every Post that has returned is either still
		// counted or its handler has finished, and nothing is counted that was not posted.
		var samplerStop int32
		var samples int64
		samplerDone := make(chan string, 1)
		go func() {
			problem := ""
			for atomic.LoadInt32(&samplerStop) == 0 && problem == "" {
				r, f0 := atomic.LoadInt64(&returned), atomic.LoadInt64(&executed)
				p := int64(ioc.Posted())
				f1, s1 := atomic.LoadInt64(&executed), atomic.LoadInt64(&expected)
				switch {
				case p+f1 < r:
					problem = fmt.Sprintf("Posted() returned %d while %d Post calls had returned and only %d handlers had finished: %d queued handlers are not accounted for", p, r, f1, r-f1-p)
				case p > s1-f0+1: // +1: a handler that has just finished is still counted until the loop has taken note of its return
					problem = fmt.Sprintf("Posted() returned %d although at most %d handlers can be queued (%d Post calls started, %d handlers finished)", p, s1-f0, s1, f0)
				}
				atomic.AddInt64(&samples, 1)
				runtime.Gosched()
			}
			samplerDone <- problem
		}()
		stopSampler := func() {
			if atomic.CompareAndSwapInt32(&samplerStop, 0, 1) {
				if problem := <-samplerDone; problem != "" {
					rt.Fatalf("%s (sampled from a third goroutine, sample #%d)", problem, atomic.LoadInt64(&samples))
				}
			}
		}
		defer atomic.StoreInt32(&samplerStop, 1)
		describe := func() string {
			return fmt.Sprintf("posters=%d plans=%v script=%v expected=%d executed=%d Pending=%d", np, summarize(plans), script, atomic.LoadInt64(&expected), atomic.LoadInt64(&executed), ioc.Pending())
		}
		waitFor := func(what string, cond func() bool) {
			deadline := time.Now().Add(watchdog)
			for !cond() {
				if time.Now().After(deadline) {
					rt.Fatalf("watchdog: %s not reached within %v (deadlock or lost wake-up): %s", what, watchdog, describe())
				}
				time.Sleep(200 * time.Microsecond)
			}
		}
		done := make(chan struct{})
		go func() { postersWG.Wait(); close(done) }()
		select {
		case <-done:
		case <-time.After(watchdog):
			rt.Fatalf("watchdog: poster goroutines not finished after %v - blocked inside Post, or waiting for a posted handler that the (running) loop never executed: lost wake-up: %s", watchdog, describe())
		}
		// every handler (including nested ones, which are posted by handlers) must run
		waitFor("all posted handlers executed", func() bool {
			return atomic.LoadInt64(&executed) == atomic.LoadInt64(&expected)
		})
		nestedWG.Wait()
		waitFor("all nested handlers executed", func() bool {
			return atomic.LoadInt64(&executed) == atomic.LoadInt64(&expected)
		})
		stopSampler()
		// stop the loop; if it sits in a blocking RunOne only this Post can wake it
		if err := ioc.Post(func() { atomic.StoreInt32(&stop, 1) }); err != nil {
			rt.Fatalf("final Post: %v", err)
		}
		select {
		case <-loopDone:
		case <-time.After(watchdog):
			rt.Fatalf("watchdog: the loop did not pick up a handler posted while it was waiting (lost wake-up): %s", describe())
		}
		if v := accounting.Load(); v != nil {
			rt.Fatalf("%s; %s", v.(string), describe())
		}
		if n := atomic.LoadInt64(&postErrs); n != 0 {
			rt.Fatalf("%d Post calls returned an error", n)
		}
		mu.Lock()
		defer mu.Unlock()
		lt := int(atomic.LoadInt64(&loopTid))
		for k, v := range execs {
			if len(v) != 1 {
				rt.Fatalf("handler (poster %d, seq %d, level %d) executed %d times", k[0], k[1], k[2], len(v))
			}
			if v[0].tid != lt {
				rt.Fatalf("handler (poster %d, seq %d, level %d) ran on thread %d, the loop runs on %d", k[0], k[1], k[2], v[0].tid, lt)
			}
		}
		if int64(len(execs)) != atomic.LoadInt64(&expected) {
			rt.Fatalf("%d distinct handlers ran, %d were posted", len(execs), atomic.LoadInt64(&expected))
		}
		for pi, pl := range plans {
			seqs := order[pi]
			if len(seqs) != pl.N {
				rt.Fatalf("poster %d: %d of its %d handlers ran", pi, len(seqs), pl.N)
			}
			for j := 1; j < len(seqs); j++ {
				if seqs[j] <= seqs[j-1] {
					rt.Fatalf("poster %d: handler %d ran after handler %d (posting order not kept)", pi, seqs[j], seqs[j-1])
				}
			}
		}
		if p := ioc.Pending(); p != 0 {
			rt.Fatalf("Pending()=%d at quiescence (all handlers ran, timer and read cancelled): %s", p, describe())
		}
		if p := ioc.Posted(); p != 0 {
			rt.Fatalf("Posted()=%d at quiescence", p)
		}
		arms := atomic.LoadInt64(&armCount)
		nt := (np >= 2 && arms > 0) || nested
		var cls []string
		if np >= 2 && arms > 0 {
			cls = append(cls, ">=2-posters+loop-arm/disarm")
		}
		if nested {
			cls = append(cls, "nested-post")
		}
		rec.Case(fmt.Sprintf("%v|%v", summarize(plans), script), nt, cls, map[string]any{"posters": summarize(plans), "script": script, "handlers": len(execs), "loop_arm_disarm_ops": arms})
	})
}

func summarize(plans []posterPlan) []string {
	var out []string
	for _, p := range plans {
		y, k := 0, 0
		for i := range p.Yield {
			if p.Yield[i] > y {
				y = p.Yield[i]
			}
			if p.Nested[i] > k {
				k = p.Nested[i]
			}
		}
		out = append(out, fmt.Sprintf("n=%d/yield=%d/nest=%d/sync=%d", p.N, y, k, p.Sync))
	}
	return out
}
