package post

// C05 through its one caller inside the library: websocket.AsyncHandshake performs the dial and the upgrade on a helper
// goroutine and relies on Post to bring the completion back to the loop. The completion callback must run once, on the
// loop's thread, must wake a loop that is blocked waiting for events, and (race build) must not touch the stream's
// state from the helper goroutine.

import (
	"bufio"
	"fmt"
	"net"
	"net/http"
	"runtime"
	"testing"
	"time"

	"github.com/talostrading/sonic"
	"github.com/talostrading/sonic/codec/websocket"
	"golang.org/x/sys/unix"
	"pgregory.net/rapid"
	"verif/internal/evid"
	"verif/internal/rfc6455"
	"verif/internal/vt"
)

func TestC05_AsyncHandshakeReturnsToLoop(t *testing.T) {
	rec := evid.For("C05")
	vt.Check(t, 40, func(rt *rapid.T) {
		ln, err := net.Listen("tcp", "127.0.0.1:0")
		if err != nil {
			rt.Fatalf("INFRA: listen: %v", err)
		}
		defer ln.Close()
		good := rapid.IntRange(0, 3).Draw(rt, "good") != 0
		delay := rapid.IntRange(0, 3).Draw(rt, "serverDelayMs")
		blocking := rapid.Bool().Draw(rt, "loopBlocksInRunOne")
		others := rapid.IntRange(0, 3).Draw(rt, "otherPosters")
		go func() { // a minimal server: one upgrade response, conforming or not
			c, err := ln.Accept()
			if err != nil {
				return
			}
			defer c.Close()
			_ = c.SetDeadline(time.Now().Add(5 * time.Second))
			req, err := http.ReadRequest(bufio.NewReader(c))
			if err != nil {
				return
			}
			time.Sleep(time.Duration(delay) * time.Millisecond)
			if good {
				fmt.Fprintf(c, "HTTP/1.1 101 Switching Protocols\r\nUpgrade: websocket\r\nConnection: Upgrade\r\nSec-WebSocket-Accept: %s\r\n\r\n", rfc6455.AcceptKey(req.Header.Get("Sec-WebSocket-Key")))
				time.Sleep(50 * time.Millisecond)
			} else {
				fmt.Fprintf(c, "HTTP/1.1 403 Forbidden\r\nContent-Length: 0\r\n\r\n")
			}
		}()
		type result struct {
			calls, cbTid, loopTid int
			err                   error
			state                 websocket.StreamState
			pending               int64
			posted                int
			otherRuns             int
			problem               string
		}
		resc := make(chan result, 1)
		go func() {
			runtime.LockOSThread()
			defer runtime.UnlockOSThread()
			var r result
			defer func() { resc <- r }()
			ioc, err := sonic.NewIO()
			if err != nil {
				r.problem = "INFRA: NewIO: " + err.Error()
				return
			}
			defer ioc.Close()
			s, err := websocket.NewWebsocketStream(ioc, nil, websocket.RoleClient)
			if err != nil {
				r.problem = "INFRA: " + err.Error()
				return
			}
			r.loopTid = unix.Gettid()
			s.AsyncHandshake("ws://"+ln.Addr().String()+"/", func(err error) {
				r.calls++
				r.cbTid = unix.Gettid()
				r.err = err
				r.state = s.State()
			})
			// unrelated posters keep the queue busy while the handshake goroutine posts its completion
			otherDone := make(chan struct{})
			want := 0
			for i := 0; i < others; i++ {
				want += 20
				go func() {
					for j := 0; j < 20; j++ {
						_ = ioc.Post(func() { r.otherRuns++ })
						runtime.Gosched()
					}
					otherDone <- struct{}{}
				}()
			}
			deadline := time.Now().Add(watchdog)
			for r.calls == 0 || r.otherRuns < want {
				if blocking {
					_ = ioc.RunOne() // must be woken by the Post of the handshake goroutine
				} else {
					_ = ioc.RunOneFor(time.Millisecond)
				}
				if time.Now().After(deadline) {
					r.problem = fmt.Sprintf("AsyncHandshake callback not run after %v of polling (calls=%d, other handlers %d of %d)", watchdog, r.calls, r.otherRuns, want)
					return
				}
			}
			for i := 0; i < others; i++ {
				<-otherDone
			}
			_, _ = ioc.PollOne()
			r.pending, r.posted = ioc.Pending(), ioc.Posted()
			_ = s.CloseNextLayer()
		}()
		var r result
		select {
		case r = <-resc:
		case <-time.After(watchdog + 5*time.Second):
			rt.Fatalf("the loop goroutine is stuck: a loop blocked in RunOne was not woken by the handshake's Post (blocking=%v)", blocking)
		}
		if r.problem != "" {
			rt.Fatalf("%s", r.problem)
		}
		if r.calls != 1 {
			rt.Fatalf("AsyncHandshake callback ran %d times", r.calls)
		}
		if r.cbTid != r.loopTid {
			rt.Fatalf("AsyncHandshake callback ran on thread %d, the loop runs on thread %d", r.cbTid, r.loopTid)
		}
		if good != (r.err == nil) {
			rt.Fatalf("conforming=%v but the handshake reported %v", good, r.err)
		}
		if good && r.state != websocket.StateActive || !good && r.state != websocket.StateTerminated {
			rt.Fatalf("State() inside the callback is %v (conforming=%v)", r.state, good)
		}
		if r.posted != 0 || r.otherRuns != others*20 {
			rt.Fatalf("Posted()=%d after every handler ran; unrelated handlers ran %d of %d", r.posted, r.otherRuns, others*20)
		}
		wantPending := int64(0)
		if r.pending != wantPending {
			rt.Fatalf("Pending()=%d at quiescence after the handshake, want %d", r.pending, wantPending)
		}
		rec.Case(fmt.Sprintf("hs|%v|%d|%v|%d", good, delay, blocking, others), blocking || others > 0, []string{"async-handshake-completion-via-post"},
			map[string]any{"conforming": good, "server_delay_ms": delay, "loop_blocked_in_RunOne": blocking, "other_posters": others})
	})
}
