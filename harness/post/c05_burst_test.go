package post

// C05, exactly once and in order across queue growth: the loop is not polled while a large number of handlers is posted
// (a stalled or descheduled loop), then ordinary cycles follow in which handlers post again from inside the loop. The
// history is sequential (one goroutine), so that every loss is reproducible from the drawn numbers.

import (
	"fmt"
	"os"
	"testing"
	"time"

	"github.com/talostrading/sonic"
	"pgregory.net/rapid"
	"verif/internal/evid"
	"verif/internal/vt"
)

func TestC05_BurstThenNested(t *testing.T) {
	rec := evid.For("C05")
	rec.SetRule("sequential burst histories: 0..3 ordinary cycles, then one cycle in which 1..60000 handlers are queued before the loop is polled, then 1..6 cycles of 1..40 handlers of which some post again from inside the loop (one or two levels, 1..3 follow-ups each); every handler runs exactly once, the handlers of a cycle posted from the top level in posting order, Posted()==0 once everything ran; finally a handler that posts itself again on every run until told to stop: every PollOne returns to its caller (at most 1000 runs inside one call) and the handler makes progress on every poll; non-trivial = a burst of more than 10000 handlers followed by a nested post")
	vt.Check(t, 60, func(rt *rapid.T) {
		ioc, err := sonic.NewIO()
		if err != nil {
			rt.Fatalf("INFRA: NewIO: %v", err)
		}
		defer ioc.Close()
		// "Post itself never blocks indefinitely or deadlocks the loop": everything below runs on one goroutine, so a Post
		// or a PollOne that never returns would hang the test process until the go test deadline (which the driver reads as
		// an infrastructure problem). A case takes milliseconds; one that is still running after 60 s is reported here.
		caseDone := make(chan struct{})
		defer close(caseDone)
		go func() {
			select {
			case <-caseDone:
			case <-time.After(60 * time.Second):
				fmt.Printf("WATCHDOG: a sequential history of Post and PollOne calls (bursts, handlers posting from inside the loop) has not finished after 60 s: a Post or a PollOne call never returned\n")
				os.Exit(1)
			}
		}()
		var trace []string
		runs := map[int]int{}
		var order []int
		next := 0
		expected := 0
		var post func(level, fanout int) int
		post = func(level, fanout int) int {
			id := next
			next++
			expected++
			if err := ioc.Post(func() {
				runs[id]++
				order = append(order, id)
				if level > 0 {
					for k := 0; k < fanout; k++ {
						post(level-1, fanout)
					}
				}
			}); err != nil {
				rt.Fatalf("Post failed: %v; trace=%v", err, trace)
			}
			return id
		}
		drain := func(what string) {
			for polls := 0; len(order) < expected; polls++ {
				if polls > 50 {
					var lost []int
					for id := 0; id < next && len(lost) < 8; id++ {
						if runs[id] == 0 {
							lost = append(lost, id)
						}
					}
					rt.Fatalf("%s: %d of %d posted handlers ran after %d polls, Posted()=%d; never ran: %v...; trace=%v", what, len(order), expected, polls, ioc.Posted(), lost, trace)
				}
				_, _ = ioc.PollOne()
			}
			for id, n := range runs {
				if n != 1 {
					rt.Fatalf("%s: handler %d ran %d times; trace=%v", what, id, n, trace)
				}
			}
			if p := ioc.Posted(); p != 0 {
				rt.Fatalf("%s: Posted()=%d after all %d handlers ran; trace=%v", what, p, expected, trace)
			}
		}
		// cycle posts n level-0 handlers; nestedAt[i] > 0 makes handler i post follow-ups
		cycle := func(what string, n int, nestedEvery, levels, fanout int) {
			start := len(order)
			var ids []int
			for i := 0; i < n; i++ {
				lv := 0
				if nestedEvery > 0 && i%nestedEvery == 0 {
					lv = levels
				}
				ids = append(ids, post(lv, fanout))
			}
			drain(what)
			// posting order: the level-0 handlers of this cycle ran in the order posted
			pos := map[int]int{}
			for i, id := range order[start:] {
				pos[id] = i
			}
			for i := 1; i < len(ids); i++ {
				if pos[ids[i]] < pos[ids[i-1]] {
					rt.Fatalf("%s: handler %d (posted after %d) ran before it; trace=%v", what, ids[i], ids[i-1], trace)
				}
			}
		}
		warm := rapid.IntRange(0, 3).Draw(rt, "warmCycles")
		for i := 0; i < warm; i++ {
			n := rapid.IntRange(1, 20).Draw(rt, "warmN")
			trace = append(trace, fmt.Sprintf("cycle(%d)", n))
			cycle("warm-up cycle", n, 0, 0, 0)
		}
		burst := rapid.OneOf(rapid.IntRange(1, 2000), rapid.SampledFrom([]int{14000, 14336, 14337, 16384, 16385, 20000, 33000, 60000})).Draw(rt, "burst")
		trace = append(trace, fmt.Sprintf("burst(%d)", burst))
		cycle("burst cycle", burst, 0, 0, 0)
		after := rapid.IntRange(1, 6).Draw(rt, "cyclesAfter")
		nested := false
		for i := 0; i < after; i++ {
			n := rapid.IntRange(1, 40).Draw(rt, "n")
			every := rapid.SampledFrom([]int{0, 1, 1, 2, 5}).Draw(rt, "nestedEvery")
			levels := rapid.IntRange(1, 2).Draw(rt, "levels")
			fanout := rapid.IntRange(1, 3).Draw(rt, "fanout")
			trace = append(trace, fmt.Sprintf("cycle(%d, every %d-th posts %d follow-ups, %d levels)", n, every, fanout, levels))
			if every > 0 {
				nested = true
			}
			cycle(fmt.Sprintf("cycle %d after the burst", i+1), n, every, levels, fanout)
		}
		// A handler that posts itself again every time it runs ("do a slice of work, yield to the loop, continue") until
		// the code around the loop tells it to stop: every PollOne must come back to its caller, or nothing else sharing
		// the loop - and nobody who could stop the handler - ever gets a turn.
		reposts := rapid.IntRange(3, 40).Draw(rt, "reposts")
		pollsReturned, runsThisPoll, totalRuns := 0, 0, 0
		stop := false
		var again func()
		again = func() {
			totalRuns++
			if runsThisPoll++; runsThisPoll > 1000 {
				rt.Fatalf("a handler that posts itself again has run %d times inside one PollOne call (PollOne returned %d times so far): Post from a handler keeps the loop from ever returning to its caller; trace=%v", runsThisPoll, pollsReturned, trace)
			}
			if !stop {
				if err := ioc.Post(again); err != nil {
					rt.Fatalf("Post from the reposting handler: %v", err)
				}
			}
		}
		if err := ioc.Post(again); err != nil {
			rt.Fatalf("Post: %v", err)
		}
		for pollsReturned < reposts {
			runsThisPoll = 0
			_, _ = ioc.PollOne()
			pollsReturned++
		}
		stop = true
		for i := 0; i < 5 && ioc.Posted() > 0; i++ {
			runsThisPoll = 0
			_, _ = ioc.PollOne()
		}
		if p := ioc.Posted(); p != 0 {
			rt.Fatalf("Posted()=%d after the reposting handler was told to stop and the loop was polled 5 more times; trace=%v", p, trace)
		}
		if totalRuns < reposts {
			rt.Fatalf("the reposting handler ran %d times in %d PollOne calls: a handler posted from a handler was not run by the next poll; trace=%v", totalRuns, reposts, trace)
		}
		trace = append(trace, fmt.Sprintf("reposting handler: %d runs over %d polls", totalRuns, pollsReturned))
		var cls []string
		if burst > 10000 {
			cls = append(cls, "burst>10000")
		}
		if nested {
			cls = append(cls, "nested-post-after-burst")
		}
		rec.Case(fmt.Sprintf("burst|%v", trace), burst > 10000 && nested, cls, map[string]any{"trace": trace, "handlers": expected})
	})
}
