package udp

import (
	"testing"

	"verif/internal/vt"
)

func TestMain(m *testing.M) { vt.Main(m) }
