package udp

// C12 — UDP datagram boundaries, addressing and multicast membership.

import (
	"bytes"
	"errors"
	"fmt"
	"net"
	"net/netip"
	"os"
	"strings"
	"syscall"
	"testing"

	"github.com/talostrading/sonic"
	"github.com/talostrading/sonic/multicast"
	"github.com/talostrading/sonic/sonicerrors"
	"pgregory.net/rapid"
	"verif/internal/evid"
	"verif/internal/known"
	"verif/internal/sysx"
	"verif/internal/vt"
)

const (
	ifName = "eth0"
)

var ifIP = func() [4]byte {
	iff, err := net.InterfaceByName(ifName)
	if err != nil {
		return [4]byte{}
	}
	addrs, _ := iff.Addrs()
	for _, a := range addrs {
		if n, ok := a.(*net.IPNet); ok && n.IP.To4() != nil {
			var b [4]byte
			copy(b[:], n.IP.To4())
			return b
		}
	}
	return [4]byte{}
}()

func haveMulticastIf() bool { return ifIP != [4]byte{} }

type rawUDP struct {
	fd   int
	ip   [4]byte
	port int
}

func (r *rawUDP) addrString() string {
	return fmt.Sprintf("%d.%d.%d.%d:%d", r.ip[0], r.ip[1], r.ip[2], r.ip[3], r.port)
}

// newRawUDP binds a raw non-blocking UDP socket to ip:0.
func newRawUDP(ip [4]byte) (*rawUDP, error) {
	fd, err := syscall.Socket(syscall.AF_INET, syscall.SOCK_DGRAM|syscall.SOCK_NONBLOCK|syscall.SOCK_CLOEXEC, 0)
	if err != nil {
		return nil, err
	}
	if err := syscall.Bind(fd, &syscall.SockaddrInet4{Addr: ip}); err != nil {
		_ = syscall.Close(fd)
		return nil, err
	}
	_, port, _ := sysx.LocalAddr4(fd)
	return &rawUDP{fd: fd, ip: ip, port: port}, nil
}

func (r *rawUDP) close() { _ = syscall.Close(r.fd) }

func (r *rawUDP) sendTo(b []byte, ip [4]byte, port int) error {
	return syscall.Sendto(r.fd, b, 0, &syscall.SockaddrInet4{Addr: ip, Port: port})
}

// socketsOnPort counts the UDP sockets of this host bound to the given local port (any address), from /proc/net/udp.
// UDPPeer sets SO_REUSEADDR and SO_REUSEPORT, and for such sockets the kernel's ephemeral port selection may hand out
// a port that another process's UDPPeer already uses: datagrams are then shared between strangers. The harness cannot
// prevent that, but it can see it and refuse to judge the case.
func socketsOnPort(port int) int {
	b, err := os.ReadFile("/proc/net/udp")
	if err != nil {
		return 1
	}
	want := fmt.Sprintf(":%04X", port)
	n := 0
	for _, line := range strings.Split(string(b), "\n")[1:] {
		f := strings.Fields(line)
		if len(f) > 2 && strings.HasSuffix(f[1], want) {
			n++
		}
	}
	return n
}

func payload(tag, n int) []byte {
	b := make([]byte, n)
	for i := range b {
		b[i] = byte(tag*37 + i*11 + i>>8)
	}
	if n >= 2 {
		b[0], b[1] = byte(tag), byte(tag>>8)
	}
	return b
}

// ---------------------------------------------------------------------------
// A: datagram boundaries and addressing, PacketConn and UDPPeer, unicast

type dgram struct {
	from *rawUDP
	data []byte
}

type reader interface {
	rawFd() int
	port() int
	asyncRead(b []byte, cb func(err error, n int, from string))
	asyncWrite(b []byte, to *rawUDP, cb func(err error))
	syncRead(b []byte) (n int, from string, err error)
	syncWrite(b []byte, to *rawUDP) error
	close()
	name() string
}

type pcReader struct{ pc sonic.PacketConn }

func (r pcReader) rawFd() int { return r.pc.RawFd() }
func (r pcReader) port() int  { _, p, _ := sysx.LocalAddr4(r.pc.RawFd()); return p }

// retainedAddrs keeps the net.Addr values the PacketConn handed to completions, with what they said at that moment: an
// application that stores the sender of datagram k must still find that sender there after datagram k+1 was read.
var retainedAddrs []struct {
	a net.Addr
	s string
}

func retain(a net.Addr) string {
	if a == nil {
		return ""
	}
	s := a.String()
	retainedAddrs = append(retainedAddrs, struct {
		a net.Addr
		s string
	}{a, s})
	return s
}

// retainedAddrsChanged reports the first stored sender address that no longer says what it said when it was delivered.
func retainedAddrsChanged() string {
	for i, r := range retainedAddrs {
		if now := r.a.String(); now != r.s {
			return fmt.Sprintf("the sender address delivered with read #%d was %s; after later reads the same value says %s (of %d addresses kept)", i, r.s, now, len(retainedAddrs))
		}
	}
	return ""
}

func (r pcReader) asyncRead(b []byte, cb func(error, int, string)) {
	r.pc.AsyncReadFrom(b, func(err error, n int, a net.Addr) {
		cb(err, n, retain(a))
	})
}
func (r pcReader) asyncWrite(b []byte, to *rawUDP, cb func(error)) {
	r.pc.AsyncWriteTo(b, &net.UDPAddr{IP: net.IPv4(to.ip[0], to.ip[1], to.ip[2], to.ip[3]).To4(), Port: to.port}, cb)
}
func (r pcReader) syncRead(b []byte) (int, string, error) {
	n, a, err := r.pc.ReadFrom(b)
	return n, retain(a), err
}
func (r pcReader) syncWrite(b []byte, to *rawUDP) error {
	return r.pc.WriteTo(b, &net.UDPAddr{IP: net.IPv4(to.ip[0], to.ip[1], to.ip[2], to.ip[3]).To4(), Port: to.port})
}
func (r pcReader) close()       { _ = r.pc.Close() }
func (r pcReader) name() string { return "PacketConn" }

type mpReader struct{ mp *multicast.UDPPeer }

func (r mpReader) rawFd() int { return r.mp.NextLayer().RawFd() }
func (r mpReader) port() int  { _, p, _ := sysx.LocalAddr4(r.rawFd()); return p }
func (r mpReader) asyncRead(b []byte, cb func(error, int, string)) {
	r.mp.AsyncRead(b, func(err error, n int, a netip.AddrPort) {
		s := ""
		if a.IsValid() {
			s = a.String()
		}
		cb(err, n, s)
	})
}
func (r mpReader) asyncWrite(b []byte, to *rawUDP, cb func(error)) {
	r.mp.AsyncWrite(b, netip.AddrPortFrom(netip.AddrFrom4(to.ip), uint16(to.port)), func(err error, n int) {
		if err == nil && n != len(b) {
			err = fmt.Errorf("AsyncWrite reported %d of %d bytes", n, len(b))
		}
		cb(err)
	})
}
func (r mpReader) syncRead(b []byte) (int, string, error) {
	n, a, err := r.mp.Read(b)
	s := ""
	if a.IsValid() {
		s = a.String()
	}
	return n, s, err
}
func (r mpReader) syncWrite(b []byte, to *rawUDP) error {
	n, err := r.mp.Write(b, netip.AddrPortFrom(netip.AddrFrom4(to.ip), uint16(to.port)))
	if err == nil && n != len(b) {
		err = fmt.Errorf("Write reported %d of %d bytes", n, len(b))
	}
	return err
}
func (r mpReader) close()       { _ = r.mp.Close() }
func (r mpReader) name() string { return "UDPPeer" }

func TestC12_DatagramBoundaries(t *testing.T) {
	rec := evid.For("C12")
	rec.SetRule("rapid: (A) PacketConn and multicast.UDPPeer on 127.0.0.1: bursts of 1..80 datagrams (consumed one read at a time from top level, or by a chain of reads re-armed from each completion with a fresh buffer, which crosses the dispatch limit) of 1..1372 bytes (and up to 60000) from 1..3 raw senders, reads with buffers smaller/equal/larger than the datagram, issued before (deferred) or after (inline) arrival; in a third of the rounds with a read pending, a second object of the same IO completes earlier in the same poll batch and takes the datagram with the blocking API, so that the pending read is woken for nothing, has to wait again and must complete with the next datagram; writes to raw receivers, singly or as a chain of 34..80 writes re-issued from their completions with varying destinations; oracle: every datagram completes exactly one read with n=min(len,buf), identical bytes, the sender's ip:port (getsockname of the raw sender), per-sender order; the address values handed to completions are kept and must still say the same at the end of the case; every write is received exactly once with the caller's bytes; (B) UDPPeer bind forms {'', ':0', ':p', ifaddr:p, 127.0.0.1:p, 224.0.x.y:p}: LocalAddr()==getsockname; (C) membership histories on eth0, the peer bound to a reserved port or (a quarter of the cases) to a kernel-chosen one ('', ':0', '0.0.0.0:0'): Join/JoinOn/JoinSource/Leave/LeaveSource/BlockSource/UnblockSource/SetLoop/SetTTL/SetOutboundIPv4/SetAsyncReadBuffer interleaved with multicast datagrams to joined and non-joined groups from a raw sender (source = interface address) while harness witness sockets keep every group joined on the host; a membership model (any-source with blocked set / include set) predicts delivered or not; non-delivery is decided by a unicast fence datagram that must be the next one read; getters TTL/Loop/Outbound/LocalAddr compared with getsockopt/getsockname after every call; non-trivial = >=2 membership changes with traffic after each, or a truncating read, or a buffer swap; distinct = hash of the history")
	rec.Assume("loopback delivery keeps per-sender order; all local multicast senders have the interface address as source, a second source is an address that never sends (10.9.9.9); TTL 1, nothing leaves the sandbox")
	vt.Check(t, 300, func(rt *rapid.T) {
		ioc, err := sonic.NewIO()
		if err != nil {
			rt.Fatalf("INFRA: %v", err)
		}
		defer ioc.Close()
		lo := [4]byte{127, 0, 0, 1}
		retainedAddrs = retainedAddrs[:0]
		var rd reader
		if rapid.Bool().Draw(rt, "peer") {
			// (a UDPPeer sets SO_REUSEPORT: a port picked by the kernel could be shared with a peer of another test process)
			p, release, err := sysx.ClaimUDPPort()
			if err != nil {
				rt.Fatalf("INFRA: %v", err)
			}
			defer release()
			mp, err := multicast.NewUDPPeer(ioc, "udp", fmt.Sprintf("127.0.0.1:%d", p))
			if err != nil {
				rt.Fatalf("INFRA: NewUDPPeer: %v", err)
			}
			rd = mpReader{mp}
		} else {
			pc, err := sonic.NewPacketConn(ioc, "udp", "127.0.0.1:0")
			if err != nil {
				rt.Fatalf("INFRA: NewPacketConn: %v", err)
			}
			rd = pcReader{pc}
		}
		defer rd.close()
		sysx.SetBuf(rd.rawFd(), 0, 4<<20)
		port := rd.port()
		ns := rapid.IntRange(1, 3).Draw(rt, "senders")
		var senders []*rawUDP
		for i := 0; i < ns; i++ {
			s, err := newRawUDP(lo)
			if err != nil {
				rt.Fatalf("INFRA: %v", err)
			}
			defer s.close()
			senders = append(senders, s)
		}
		queues := map[*rawUDP][][]byte{} // per sender: sent, not yet read
		var trace []string
		truncated, deferredRead := false, false
		tag := 0
		var problem string
		reading := false
		// syncOnce takes one queued datagram with the blocking API and checks it like an asynchronous read; false = would block
		syncOnce := func(bufLen int) bool {
			buf := make([]byte, bufLen)
			n, from, err := rd.syncRead(buf)
			if errors.Is(err, sonicerrors.ErrWouldBlock) || errors.Is(err, syscall.EAGAIN) {
				return false
			}
			if err != nil {
				problem = fmt.Sprintf("synchronous read failed: %v", err)
				return true
			}
			var src *rawUDP
			for _, s := range senders {
				if s.addrString() == from {
					src = s
				}
			}
			if src == nil || len(queues[src]) == 0 {
				problem = fmt.Sprintf("synchronous read reports sender %q with nothing outstanding from it", from)
				return true
			}
			want := queues[src][0]
			queues[src] = queues[src][1:]
			wn := len(want)
			if wn > len(buf) {
				wn = len(buf)
				truncated = true
			}
			if n != wn || n > len(buf) || !bytes.Equal(buf[:n], want[:wn]) {
				problem = fmt.Sprintf("synchronous read into a %d-byte buffer returned n=%d %x.., the next datagram of %s has %d bytes %x.. (a longer datagram is truncated to the buffer and n is the number of bytes delivered)", len(buf), n, head(buf[:min(max(n, 0), len(buf))]), from, len(want), head(want))
			}
			trace = append(trace, fmt.Sprintf("syncread(buf=%d)=%d", len(buf), n))
			return true
		}
		var aux sonic.PacketConn
		defer func() {
			if aux != nil {
				_ = aux.Close()
			}
		}()
		spurious := false
		rounds := rapid.IntRange(1, 6).Draw(rt, "rounds")
		for r := 0; r < rounds && problem == ""; r++ {
			// optionally arm a read before anything arrives
			bufLen := rapid.SampledFrom([]int{1, 7, 100, 1372, 1500, 65535}).Draw(rt, "buf")
			armFirst := rapid.Bool().Draw(rt, "armFirst")
			total := 0
			for _, q := range queues {
				total += len(q)
			}
			chain := rapid.Bool().Draw(rt, "chain")
			var issueRead func()
			issueRead = func() {
				buf := make([]byte, bufLen)
				reading = true
				inline := true
				rd.asyncRead(buf, func(err error, n int, from string) {
					reading = false
					if !inline {
						deferredRead = true
					}
					if err != nil {
						problem = fmt.Sprintf("read failed: %v", err)
						return
					}
					var src *rawUDP
					for _, s := range senders {
						if s.addrString() == from {
							src = s
						}
					}
					if src == nil {
						problem = fmt.Sprintf("read reports sender %q, the datagrams came from %v", from, addrList(senders))
						return
					}
					q := queues[src]
					if len(q) == 0 {
						problem = fmt.Sprintf("read delivered a datagram from %s but all datagrams of that sender were already delivered (duplicate or invented)", from)
						return
					}
					want := q[0]
					queues[src] = q[1:]
					wn := len(want)
					if wn > len(buf) {
						wn = len(buf)
						truncated = true
					}
					if n != wn || n > len(buf) || !bytes.Equal(buf[:n], want[:wn]) {
						problem = fmt.Sprintf("read into a %d-byte buffer returned n=%d %x.., the next datagram of %s has %d bytes %x.. (a longer datagram is truncated to the buffer and n is the number of bytes delivered)", len(buf), n, head(buf[:min(max(n, 0), len(buf))]), from, len(want), head(want))
					}
					trace = append(trace, fmt.Sprintf("read(buf=%d)=%d", len(buf), n))
					if chain && problem == "" {
						// consume the burst the way applications do: re-arm from the completion, with a fresh buffer each
						// time; after 32 nested completions the next read is handed to the poller
						left := 0
						for _, q := range queues {
							left += len(q)
						}
						if left > 0 {
							issueRead()
						}
					}
				})
				inline = false
			}
			if armFirst && total == 0 && !reading {
				issueRead()
			}
			if reading && rapid.IntRange(0, 2).Draw(rt, "stolen") == 0 {
				// Readiness without data: another object of the same IO becomes ready in the same poll batch, and its
				// completion takes the datagram the pending read was woken for with the blocking API. The pending read
				// finds nothing, must wait again, and must then complete with the next datagram like any other read.
				if aux == nil {
					if aux, err = sonic.NewPacketConn(ioc, "udp", "127.0.0.1:0"); err != nil {
						rt.Fatalf("INFRA: NewPacketConn: %v", err)
					}
				}
				_, auxPort, _ := sysx.LocalAddr4(aux.RawFd())
				auxRan := false
				aux.AsyncReadFrom(make([]byte, 16), func(err error, _ int, _ net.Addr) {
					auxRan = true
					if err != nil {
						problem = fmt.Sprintf("INFRA: auxiliary read failed: %v", err)
						return
					}
					if reading && syncOnce(bufLen) {
						spurious = true
						trace = append(trace, "(taken from the completion of another object in the same poll batch; the pending read was woken for nothing)")
					}
				})
				s := senders[0]
				tag++
				p := payload(tag, rapid.IntRange(1, 300).Draw(rt, "stolenLen"))
				if err := s.sendTo([]byte("x"), lo, auxPort); err != nil {
					rt.Fatalf("INFRA: sendto: %v", err)
				}
				if err := s.sendTo(p, lo, port); err != nil {
					rt.Fatalf("INFRA: sendto: %v", err)
				}
				queues[s] = append(queues[s], p)
				trace = append(trace, fmt.Sprintf("send(s0,%d)", len(p)))
				sysx.WaitReadable(aux.RawFd(), 1000)
				sysx.WaitReadable(rd.rawFd(), 1000)
				for i := 0; i < 20 && !auxRan; i++ {
					_, _ = ioc.PollOne()
				}
				if !auxRan {
					rt.Fatalf("INFRA: the auxiliary read never completed")
				}
				if strings.HasPrefix(problem, "INFRA") {
					rt.Fatalf("%s", problem)
				}
			}
			burst := rapid.OneOf(rapid.IntRange(1, 20), rapid.IntRange(30, 80)).Draw(rt, "burst")
			for i := 0; i < burst; i++ {
				s := senders[rapid.IntRange(0, ns-1).Draw(rt, "s")]
				n := rapid.OneOf(rapid.IntRange(1, 1372), rapid.SampledFrom([]int{1, 2, 1371, 1372, 9000, 60000})).Draw(rt, "len")
				tag++
				p := payload(tag, n)
				if err := s.sendTo(p, lo, port); err != nil {
					rt.Fatalf("INFRA: sendto: %v", err)
				}
				queues[s] = append(queues[s], p)
				trace = append(trace, fmt.Sprintf("send(s%d,%d)", indexOf(senders, s), n))
			}
			if !sysx.WaitReadable(rd.rawFd(), 1000) && !reading {
				rt.Fatalf("INFRA: socket not readable after a burst")
			}
			// read everything back
			for guard := 0; guard < 200 && problem == ""; guard++ {
				left := 0
				for _, q := range queues {
					left += len(q)
				}
				if left == 0 {
					break
				}
				if !reading {
					bufLen = rapid.SampledFrom([]int{1, 7, 100, 1372, 1500, 65535}).Draw(rt, "buf2")
					if rapid.IntRange(0, 3).Draw(rt, "syncRead") == 0 && sysx.WaitReadable(rd.rawFd(), 0) {
						// the blocking API on a queued datagram
						if !syncOnce(bufLen) && problem == "" {
							problem = "synchronous read would block with a datagram queued"
						}
						if problem != "" {
							break
						}
						continue
					}
					issueRead()
				}
				if reading {
					sysx.WaitReadable(rd.rawFd(), 1000)
					_, _ = ioc.PollOne()
				}
			}
			if problem == "" {
				for s, q := range queues {
					if len(q) != 0 {
						problem = fmt.Sprintf("%d datagrams of %s were never delivered", len(q), s.addrString())
					}
				}
			}
			// a write
			for wr := rapid.IntRange(0, 3).Draw(rt, "nwrites"); problem == "" && wr > 0; wr-- {
				to := senders[rapid.IntRange(0, ns-1).Draw(rt, "dest")] // same address, different ports: the destination is per write
				tag++
				p := payload(tag, rapid.OneOf(rapid.IntRange(1, 1372), rapid.SampledFrom([]int{1, 1372, 9000})).Draw(rt, "wlen"))
				calls := 0
				var werr error
				if rapid.Bool().Draw(rt, "syncWrite") {
					werr = rd.syncWrite(p, to)
					calls = 1
				} else {
					rd.asyncWrite(p, to, func(err error) { calls++; werr = err })
				}
				for i := 0; i < 20 && calls == 0; i++ {
					_, _ = ioc.PollOne()
				}
				if calls != 1 || werr != nil {
					problem = fmt.Sprintf("write of %d bytes: callback ran %d times, err %v", len(p), calls, werr)
				} else {
					if !sysx.WaitReadable(to.fd, 300) {
						problem = fmt.Sprintf("datagram of %d bytes written by %s never reached the destination", len(p), rd.name())
					} else {
						buf := make([]byte, 65536)
						n, _, err := syscall.Recvfrom(to.fd, buf, 0)
						if err != nil || !bytes.Equal(buf[:n], p) {
							problem = fmt.Sprintf("destination received %d bytes %x.. (err %v), the caller wrote %d bytes %x..", n, head(buf[:max(n, 0)]), err, len(p), head(p))
						}
						if sysx.WaitReadable(to.fd, 0) {
							problem = "one write produced more than one datagram"
						}
					}
				}
				trace = append(trace, fmt.Sprintf("write(%d)", len(p)))
			}
		}
		// a chain of writes, each issued from the completion of the previous one, to varying destinations and from fresh
		// buffers: after 32 nested completions the next write is handed to the poller and must still go where it was addressed
		if problem == "" && rapid.IntRange(0, 2).Draw(rt, "writeChain") == 0 {
			// (with or without a read of the same object waiting in the poller meanwhile: the deferred write must be
			// registered next to it)
			if !reading && rapid.Bool().Draw(rt, "readPendingDuringWriteChain") {
				total := 0
				for _, q := range queues {
					total += len(q)
				}
				if total == 0 {
					buf := make([]byte, 64)
					reading = true
					rd.asyncRead(buf, func(err error, n int, from string) {
						reading = false
						if err == nil {
							problem = fmt.Sprintf("a read completed with %d bytes from %s although nothing was sent", n, from)
						}
					})
					trace = append(trace, "read-armed-before-the-write-chain")
				}
			}
			L := rapid.IntRange(34, 80).Draw(rt, "chainLen")
			dests := make([]int, L)
			sizes := make([]int, L)
			for i := range dests {
				dests[i] = rapid.IntRange(0, ns-1).Draw(rt, "cdest")
				sizes[i] = rapid.IntRange(1, 40).Draw(rt, "csize")
			}
			want := make([][][]byte, ns)
			done, werrs := 0, 0
			var next func(i int)
			next = func(i int) {
				if i >= L {
					return
				}
				tag++
				pkt := payload(tag, sizes[i])
				want[dests[i]] = append(want[dests[i]], pkt)
				rd.asyncWrite(pkt, senders[dests[i]], func(err error) {
					done++
					if err != nil {
						werrs++
					}
					next(i + 1)
				})
			}
			next(0)
			for i := 0; i < 50 && done < L; i++ {
				sysx.WaitWritable(rd.rawFd(), 50)
				_, _ = ioc.PollOne()
			}
			trace = append(trace, fmt.Sprintf("writeChain(%d)", L))
			if done != L || werrs != 0 {
				problem = fmt.Sprintf("chain of %d writes: %d completions, %d errors", L, done, werrs)
			}
			for d := 0; d < ns && problem == ""; d++ {
				for k, pkt := range want[d] {
					buf := make([]byte, 2048)
					if !sysx.WaitReadable(senders[d].fd, 300) {
						problem = fmt.Sprintf("write #%d of the chain addressed to receiver %d (%d bytes) never arrived there", k, d, len(pkt))
						break
					}
					n, _, err := syscall.Recvfrom(senders[d].fd, buf, 0)
					if err != nil || !bytes.Equal(buf[:n], pkt) {
						problem = fmt.Sprintf("receiver %d got %x.. as its datagram #%d of the chain, the caller wrote %x.. to it", d, head(buf[:max(n, 0)]), k, head(pkt))
						break
					}
				}
				if problem == "" && sysx.WaitReadable(senders[d].fd, 0) {
					problem = fmt.Sprintf("receiver %d got more datagrams than were addressed to it", d)
				}
			}
		}
		if n := socketsOnPort(port); n != 1 && (problem != "" || sysx.WaitReadable(rd.rawFd(), 0)) {
			rt.Fatalf("INFRA: %d sockets of this host are bound to the test port %d (another process received the same ephemeral port through SO_REUSEPORT): the case cannot be judged (%s)", n, port, problem)
		}
		if problem != "" {
			rt.Fatalf("%s: %s; trace=%v", rd.name(), problem, trace)
		}
		if p := retainedAddrsChanged(); p != "" {
			rt.Fatalf("%s: %s; trace=%v", rd.name(), p, trace)
		}
		// nothing else arrives
		if sysx.WaitReadable(rd.rawFd(), 0) {
			rt.Fatalf("%s: a datagram is still queued after every sent datagram was delivered (duplicate); trace=%v", rd.name(), trace)
		}
		var cls []string
		cls = append(cls, "A:"+rd.name())
		if truncated {
			cls = append(cls, "truncating-read")
		}
		if deferredRead {
			cls = append(cls, "read-armed-before-arrival")
		}
		if spurious {
			cls = append(cls, "pending-read-woken-for-nothing")
		}
		rec.Case("A|"+rd.name()+"|"+strings.Join(trace, ","), truncated, cls, map[string]any{"object": rd.name(), "trace": trace})
	})
}

func head(b []byte) []byte {
	if len(b) > 8 {
		return b[:8]
	}
	return b
}

func addrList(s []*rawUDP) []string {
	var out []string
	for _, x := range s {
		out = append(out, x.addrString())
	}
	return out
}

func indexOf(s []*rawUDP, x *rawUDP) int {
	for i, y := range s {
		if y == x {
			return i
		}
	}
	return -1
}

// ---------------------------------------------------------------------------
// B + C: bind forms, getters vs kernel, membership histories

type groupState struct {
	mode    string // "" (not a member), "any", "include"
	blocked map[string]bool
	include map[string]bool
	// what the membership looked like when the group was last left as a whole ("" if it never was): a caller that
	// subscribes again usually restores the filters it had
	prevMode    string
	prevBlocked bool // srcSelf was blocked then
}

func getsockoptInt(fd, level, opt int) int {
	v, err := syscall.GetsockoptInt(fd, level, opt)
	if err != nil {
		return -1
	}
	return v
}

func checkGetters(mp *multicast.UDPPeer, loopSet bool, loopKnown bool) string {
	fd := mp.NextLayer().RawFd()
	ip, port, err := sysx.LocalAddr4(fd)
	if err != nil {
		return "getsockname failed: " + err.Error()
	}
	la := mp.LocalAddr()
	if la == nil || la.Port != port || !la.IP.Equal(ip) {
		return fmt.Sprintf("LocalAddr()=%v, getsockname says %v:%d", la, ip, port)
	}
	if ttl := getsockoptInt(fd, syscall.IPPROTO_IP, syscall.IP_MULTICAST_TTL); int(mp.TTL()) != ttl {
		return fmt.Sprintf("TTL()=%d, kernel IP_MULTICAST_TTL=%d", mp.TTL(), ttl)
	}
	if loopSet || !loopKnown {
		if lp := getsockoptInt(fd, syscall.IPPROTO_IP, syscall.IP_MULTICAST_LOOP); mp.Loop() != (lp == 1) {
			return fmt.Sprintf("Loop()=%v, kernel IP_MULTICAST_LOOP=%d", mp.Loop(), lp)
		}
	}
	kif, err := syscall.GetsockoptInet4Addr(fd, syscall.IPPROTO_IP, syscall.IP_MULTICAST_IF)
	if err == nil {
		iff, oip := mp.Outbound()
		if oip.IsValid() && oip.As4() != kif {
			return fmt.Sprintf("Outbound() reports %v, kernel IP_MULTICAST_IF=%v", oip, netip.AddrFrom4(kif))
		}
		if iff != nil && kif == [4]byte{} {
			return fmt.Sprintf("Outbound() reports interface %s but the kernel's IP_MULTICAST_IF is unset (0.0.0.0)", iff.Name)
		}
		if kif != [4]byte{} {
			owns := false
			if iff != nil {
				addrs, _ := iff.Addrs()
				for _, a := range addrs {
					if ipn, ok := a.(*net.IPNet); ok && ipn.IP.To4() != nil && [4]byte(ipn.IP.To4()) == kif {
						owns = true
					}
				}
			}
			if !owns {
				name := "<nil>"
				if iff != nil {
					name = iff.Name
				}
				return fmt.Sprintf("Outbound() reports interface %s, the kernel's IP_MULTICAST_IF is %v, which is not an address of that interface", name, netip.AddrFrom4(kif))
			}
		}
	}
	return ""
}

func TestC12_BindFormsAndGetters(t *testing.T) {
	if !haveMulticastIf() {
		t.Skip("no multicast interface")
	}
	rec := evid.For("C12")
	loopKnown := known.Listed("C12", "loop-getter-initial")
	vt.Check(t, 150, func(rt *rapid.T) {
		ioc, err := sonic.NewIO()
		if err != nil {
			rt.Fatalf("INFRA: %v", err)
		}
		defer ioc.Close()
		// a free port
		probe, err := newRawUDP([4]byte{})
		if err != nil {
			rt.Fatalf("INFRA: %v", err)
		}
		p := probe.port
		probe.close()
		form := rapid.SampledFrom([]string{"empty", "port0", "port", "ifaddr", "loopback", "group"}).Draw(rt, "form")
		var addr string
		switch form {
		case "empty":
			addr = ""
		case "port0":
			addr = ":0"
		case "port":
			addr = fmt.Sprintf(":%d", p)
		case "ifaddr":
			addr = fmt.Sprintf("%d.%d.%d.%d:%d", ifIP[0], ifIP[1], ifIP[2], ifIP[3], p)
		case "loopback":
			addr = fmt.Sprintf("127.0.0.1:%d", p)
		case "group":
			addr = fmt.Sprintf("224.0.%d.%d:%d", rapid.IntRange(2, 20).Draw(rt, "g1"), rapid.IntRange(1, 250).Draw(rt, "g2"), p)
		}
		mp, err := multicast.NewUDPPeer(ioc, "udp", addr)
		if err != nil {
			rt.Fatalf("NewUDPPeer(%q): %v", addr, err)
		}
		defer mp.Close()
		var trace []string
		loopSet := false
		if prob := checkGetters(mp, loopSet, loopKnown); prob != "" {
			rt.Fatalf("after NewUDPPeer(%q): %s", addr, prob)
		}
		excluded := 0
		if loopKnown {
			excluded++
		}
		if form != "empty" && form != "port0" {
			_, port, _ := sysx.LocalAddr4(mp.NextLayer().RawFd())
			if port != p {
				rt.Fatalf("NewUDPPeer(%q) is bound to port %d", addr, port)
			}
		}
		n := rapid.IntRange(1, 6).Draw(rt, "ncalls")
		for i := 0; i < n; i++ {
			switch rapid.SampledFrom([]string{"ttl", "loop", "outbound", "outbound-bad"}).Draw(rt, "call") {
			case "ttl":
				v := uint8(rapid.IntRange(0, 255).Draw(rt, "ttl"))
				err := mp.SetTTL(v)
				trace = append(trace, fmt.Sprintf("SetTTL(%d)=%v", v, err))
				if err != nil {
					rt.Fatalf("SetTTL(%d): %v", v, err)
				}
				if mp.TTL() != v {
					rt.Fatalf("TTL()=%d after SetTTL(%d)", mp.TTL(), v)
				}
			case "loop":
				v := rapid.Bool().Draw(rt, "loop")
				err := mp.SetLoop(v)
				trace = append(trace, fmt.Sprintf("SetLoop(%v)=%v", v, err))
				if err != nil {
					rt.Fatalf("SetLoop(%v): %v", v, err)
				}
				loopSet = true
			case "outbound":
				err := mp.SetOutboundIPv4(ifName)
				trace = append(trace, fmt.Sprintf("SetOutboundIPv4(%s)=%v", ifName, err))
				if err == nil {
					kif, _ := syscall.GetsockoptInet4Addr(mp.NextLayer().RawFd(), syscall.IPPROTO_IP, syscall.IP_MULTICAST_IF)
					if kif != ifIP {
						rt.Fatalf("SetOutboundIPv4(%s) returned nil but the kernel's IP_MULTICAST_IF is %v, the interface address is %v; Outbound()=%v", ifName, netip.AddrFrom4(kif), netip.AddrFrom4(ifIP), fmtOutbound(mp))
					}
				}
			case "outbound-bad":
				before, _ := syscall.GetsockoptInet4Addr(mp.NextLayer().RawFd(), syscall.IPPROTO_IP, syscall.IP_MULTICAST_IF)
				err := mp.SetOutboundIPv4("lo") // not multicast capable
				trace = append(trace, fmt.Sprintf("SetOutboundIPv4(lo)=%v", err))
				after, _ := syscall.GetsockoptInet4Addr(mp.NextLayer().RawFd(), syscall.IPPROTO_IP, syscall.IP_MULTICAST_IF)
				if err == nil && after == before {
					iff, _ := mp.Outbound()
					if iff != nil && iff.Name == "lo" {
						rt.Fatalf("SetOutboundIPv4(lo) changed nothing in the kernel but Outbound() now reports lo")
					}
				}
			}
			if prob := checkGetters(mp, loopSet, loopKnown); prob != "" {
				rt.Fatalf("%s; bind=%q trace=%v", prob, addr, trace)
			}
		}
		rec.ExcludedKnown(excluded)
		rec.Case("B|"+form+"|"+strings.Join(trace, ","), len(trace) >= 2, []string{"B:bind-" + form}, map[string]any{"bind": addr, "calls": trace})
	})
}

func fmtOutbound(mp *multicast.UDPPeer) string {
	iff, ip := mp.Outbound()
	n := "<nil>"
	if iff != nil {
		n = iff.Name
	}
	return fmt.Sprintf("(%s,%v)", n, ip)
}

// Probe of the recorded root cause: Loop() before any SetLoop is the inverse of the kernel's value.
func TestC12_ProbeLoopGetterInitial(t *testing.T) {
	ioc := sonic.MustIO()
	defer ioc.Close()
	mp, err := multicast.NewUDPPeer(ioc, "udp", "127.0.0.1:0")
	if err != nil {
		t.Fatalf("INFRA: %v", err)
	}
	defer mp.Close()
	k := getsockoptInt(mp.NextLayer().RawFd(), syscall.IPPROTO_IP, syscall.IP_MULTICAST_LOOP)
	known.Probe(t, "C12", "loop-getter-initial", mp.Loop() != (k == 1), fmt.Sprintf("Loop() right after NewUDPPeer returns %v while the kernel's IP_MULTICAST_LOOP is %d (GetMulticastLoop is inverted; TestUDPPeerIPv4_SetLoop1 pins the inverted default)", mp.Loop(), k))
}

type witness struct {
	fd    int
	group [4]byte
}

func newWitness(group [4]byte, port int) (*witness, error) {
	fd, err := syscall.Socket(syscall.AF_INET, syscall.SOCK_DGRAM|syscall.SOCK_NONBLOCK|syscall.SOCK_CLOEXEC, 0)
	if err != nil {
		return nil, err
	}
	_ = syscall.SetsockoptInt(fd, syscall.SOL_SOCKET, syscall.SO_REUSEADDR, 1)
	// bound to the group address: it never competes for unicast datagrams
	if err := syscall.Bind(fd, &syscall.SockaddrInet4{Addr: group, Port: port}); err != nil {
		_ = syscall.Close(fd)
		return nil, err
	}
	if err := syscall.SetsockoptIPMreq(fd, syscall.IPPROTO_IP, syscall.IP_ADD_MEMBERSHIP, &syscall.IPMreq{Multiaddr: group, Interface: ifIP}); err != nil {
		_ = syscall.Close(fd)
		return nil, err
	}
	return &witness{fd: fd, group: group}, nil
}

func TestC12_MembershipHistories(t *testing.T) {
	if !haveMulticastIf() {
		t.Skip("no multicast interface")
	}
	rec := evid.For("C12")
	loopKnown := known.Listed("C12", "loop-getter-initial")
	vt.Check(t, 150, func(rt *rapid.T) {
		ioc, err := sonic.NewIO()
		if err != nil {
			rt.Fatalf("INFRA: %v", err)
		}
		defer ioc.Close()
		// a port nobody else can be handed (see sysx.ClaimUDPPort), or - in a quarter of the cases - the port-0 bind forms,
		// where the kernel picks the port: a port picked by the kernel may be shared with a stranger's UDPPeer
		// (SO_REUSEPORT), which is checked right away here and again before any mismatch is reported
		claimed, release, err := sysx.ClaimUDPPort()
		if err != nil {
			rt.Fatalf("INFRA: %v", err)
		}
		defer release()
		bindForm := fmt.Sprintf(":%d", claimed)
		if rapid.IntRange(0, 3).Draw(rt, "kernelPort") == 0 {
			bindForm = rapid.SampledFrom([]string{"", ":0", "0.0.0.0:0"}).Draw(rt, "bindForm")
		}
		mp, err := multicast.NewUDPPeer(ioc, "udp", bindForm)
		if err != nil {
			rt.Fatalf("INFRA: NewUDPPeer(%q): %v", bindForm, err)
		}
		if _, p0, _ := sysx.LocalAddr4(mp.NextLayer().RawFd()); bindForm != fmt.Sprintf(":%d", claimed) && socketsOnPort(p0) != 1 {
			_ = mp.Close()
			bindForm = fmt.Sprintf(":%d", claimed)
			if mp, err = multicast.NewUDPPeer(ioc, "udp", bindForm); err != nil {
				rt.Fatalf("INFRA: NewUDPPeer(%q): %v", bindForm, err)
			}
		}
		defer func() { _ = mp.Close() }()
		pfd := mp.NextLayer().RawFd()
		_, port, _ := sysx.LocalAddr4(pfd)
		g0 := rapid.IntRange(2, 200).Draw(rt, "g")
		groups := [][4]byte{{239, 7, byte(g0), 1}, {239, 7, byte(g0), 2}, {224, 0, 2, byte(g0)}}
		var wits []*witness
		for _, g := range groups {
			w, err := newWitness(g, port)
			if err != nil {
				rt.Fatalf("INFRA: witness: %v", err)
			}
			defer syscall.Close(w.fd)
			wits = append(wits, w)
		}
		sender, err := newRawUDP(ifIP)
		if err != nil {
			rt.Fatalf("INFRA: sender: %v", err)
		}
		defer sender.close()
		_ = syscall.SetsockoptInet4Addr(sender.fd, syscall.IPPROTO_IP, syscall.IP_MULTICAST_IF, ifIP)
		_ = syscall.SetsockoptInt(sender.fd, syscall.IPPROTO_IP, syscall.IP_MULTICAST_TTL, 1)
		_ = syscall.SetsockoptInt(sender.fd, syscall.IPPROTO_IP, syscall.IP_MULTICAST_LOOP, 1)
		fence, err := newRawUDP([4]byte{127, 0, 0, 1})
		if err != nil {
			rt.Fatalf("INFRA: fence: %v", err)
		}
		defer fence.close()

		srcSelf := fmt.Sprintf("%d.%d.%d.%d", ifIP[0], ifIP[1], ifIP[2], ifIP[3])
		srcOther := "10.9.9.9"
		gs := func(g [4]byte) string { return fmt.Sprintf("%d.%d.%d.%d", g[0], g[1], g[2], g[3]) }
		model := map[[4]byte]*groupState{}
		for _, g := range groups {
			model[g] = &groupState{blocked: map[string]bool{}, include: map[string]bool{}}
		}
		expectDelivered := func(g [4]byte) bool {
			st := model[g]
			switch st.mode {
			case "any":
				return !st.blocked[srcSelf]
			case "include":
				return st.include[srcSelf]
			}
			return false
		}
		var trace []string
		changes, swaps := 0, 0
		tag := 0
		// one read is always armed; completions are collected here
		type got struct {
			n    int
			from string
			data []byte
		}
		var inbox []got
		var b1, b2 []byte
		var cur []byte
		var rerr error
		var arm func()
		arm = func() {
			b1 = make([]byte, 2048)
			for i := range b1 {
				b1[i] = 0xEE
			}
			cur = b1
			buf := b1
			mp.AsyncRead(buf, func(err error, n int, from netip.AddrPort) {
				if err != nil {
					rerr = err
					return
				}
				inbox = append(inbox, got{n: n, from: from.String(), data: append([]byte(nil), cur[:n]...)})
				if &cur[0] != &b1[0] {
					// the buffer was swapped: the original must be untouched
					for _, c := range b1 {
						if c != 0xEE {
							rerr = fmt.Errorf("SetAsyncReadBuffer designated another buffer but the datagram was written into the original one")
							break
						}
					}
				}
				arm()
			})
		}
		arm()
		pump := func() {
			for i := 0; i < 4; i++ {
				if sysx.WaitReadable(pfd, 0) {
					_, _ = ioc.PollOne()
				}
			}
		}
		n := rapid.IntRange(2, 12).Draw(rt, "steps")
		for step := 0; step < n; step++ {
			g := groups[rapid.IntRange(0, len(groups)-1).Draw(rt, "group")]
			st := model[g]
			op := rapid.SampledFrom([]string{"join", "joinOn", "joinSrcSelf", "joinSrcOther", "leave", "leaveSrcSelf", "leaveSrcOther", "blockSelf", "blockOther", "unblockSelf", "unblockOther", "swapBuffer", "traffic", "traffic"}).Draw(rt, "op")
			// the undoing operations only mean something in the state their counterpart produced: steer towards them there
			// (the sender of the traffic is srcSelf, so these are the ones whose effect the traffic shows)
			if rapid.IntRange(0, 2).Draw(rt, "undo") == 0 {
				switch {
				case st.blocked[srcSelf]:
					op = "unblockSelf"
				case st.mode == "any" && len(st.blocked) == 0 && rapid.Bool().Draw(rt, "block"):
					op = "blockSelf"
				case st.mode == "include" && st.include[srcSelf]:
					op = "leaveSrcSelf"
				}
			}
			// re-subscription: a group that was left as a whole is joined again in the mode it had, and the filter on the
			// sender it had then is put back (anything the library remembers per group or per source across a Leave shows here)
			if rapid.IntRange(0, 2).Draw(rt, "restore") != 0 {
				switch {
				case st.mode == "" && st.prevMode == "any":
					op = "join"
				case st.mode == "" && st.prevMode == "include":
					op = "joinSrcSelf"
				case st.mode == "any" && st.prevMode == "any" && st.prevBlocked && !st.blocked[srcSelf]:
					op = "blockSelf"
				case st.mode == "any" && st.blocked[srcSelf] && st.prevMode == "" && rapid.Bool().Draw(rt, "leaveBlocked"):
					op = "leave"
				}
			}
			// Linux allows a mode switch on an empty source list: IP_DROP_SOURCE_MEMBERSHIP on an any-source membership
			// fails but leaves the membership in include mode with no sources. That is kernel behaviour, not the
			// library's: LeaveSource is only generated for source-specific memberships.
			if (op == "leaveSrcSelf" || op == "leaveSrcOther") && st.mode != "include" {
				op = "traffic"
			}
			// calls that are valid for the current membership state must succeed
			srcOf := func(o string) string {
				if strings.HasSuffix(o, "Other") {
					return srcOther
				}
				return srcSelf
			}
			mustSucceed := false
			switch op {
			case "join", "joinOn":
				mustSucceed = st.mode == ""
			case "joinSrcSelf", "joinSrcOther":
				mustSucceed = st.mode == "" || (st.mode == "include" && !st.include[srcOf(op)])
			case "leave":
				mustSucceed = st.mode != ""
			case "leaveSrcSelf", "leaveSrcOther":
				mustSucceed = st.mode == "include" && st.include[srcOf(op)]
			case "blockSelf", "blockOther":
				mustSucceed = st.mode == "any" && !st.blocked[srcOf(op)]
			case "unblockSelf", "unblockOther":
				mustSucceed = st.mode == "any" && st.blocked[srcOf(op)]
			}
			var err error
			switch op {
			case "join":
				err = mp.Join(multicast.IP(gs(g)))
				if err == nil {
					st.mode = "any"
				}
			case "joinOn":
				err = mp.JoinOn(multicast.IP(gs(g)), ifName)
				if err == nil {
					st.mode = "any"
				}
			case "joinSrcSelf", "joinSrcOther":
				src := srcSelf
				if op == "joinSrcOther" {
					src = srcOther
				}
				if rapid.Bool().Draw(rt, "anyInterface") {
					err = mp.JoinSource(multicast.IP(gs(g)), multicast.SourceIP(src)) // the interface the kernel picks (there is one)
				} else {
					err = mp.JoinSourceOn(multicast.IP(gs(g)), multicast.SourceIP(src), ifName)
				}
				if err == nil {
					st.mode = "include"
					st.include[src] = true
				}
			case "leave":
				err = mp.Leave(multicast.IP(gs(g)))
				if err == nil {
					st.prevMode, st.prevBlocked = st.mode, st.blocked[srcSelf]
					st.mode, st.blocked, st.include = "", map[string]bool{}, map[string]bool{}
				}
			case "leaveSrcSelf", "leaveSrcOther":
				src := srcSelf
				if op == "leaveSrcOther" {
					src = srcOther
				}
				err = mp.LeaveSource(multicast.IP(gs(g)), multicast.SourceIP(src))
				if err == nil {
					delete(st.include, src)
					if len(st.include) == 0 {
						st.mode = ""
					}
				}
			case "blockSelf", "blockOther":
				src := srcSelf
				if op == "blockOther" {
					src = srcOther
				}
				err = mp.BlockSource(multicast.IP(gs(g)), multicast.SourceIP(src))
				if err == nil {
					st.blocked[src] = true
					if src == srcSelf && st.prevBlocked {
						st.prevMode, st.prevBlocked = "", false // restored: generation moves on
					}
				}
			case "unblockSelf", "unblockOther":
				src := srcSelf
				if op == "unblockOther" {
					src = srcOther
				}
				err = mp.UnblockSource(multicast.IP(gs(g)), multicast.SourceIP(src))
				if err == nil {
					delete(st.blocked, src)
				}
			case "swapBuffer":
				b2 = make([]byte, 2048)
				mp.SetAsyncReadBuffer(b2)
				cur = b2
				swaps++
			}
			if op != "traffic" && op != "swapBuffer" {
				trace = append(trace, fmt.Sprintf("%s(%s)=%v", op, gs(g), err != nil))
				if mustSucceed && err != nil {
					rt.Fatalf("%s(%s) is valid for the membership state (%s) but failed with %v; trace=%v", op, gs(g), modelString(model, groups), err, trace)
				}
				if err == nil {
					changes++
				}
				if prob := checkGetters(mp, false, loopKnown); prob != "" {
					rt.Fatalf("%s; trace=%v", prob, trace)
				}
			} else if op == "swapBuffer" {
				trace = append(trace, "swapBuffer")
			}
			// traffic after every step: one datagram to every group, then a unicast fence
			inbox = nil
			var want []got
			for _, tg := range groups {
				tag++
				p := payload(tag, rapid.IntRange(2, 200).Draw(rt, "plen"))
				if err := sender.sendTo(p, tg, port); err != nil {
					rt.Fatalf("INFRA: multicast sendto: %v", err)
				}
				if expectDelivered(tg) {
					want = append(want, got{n: len(p), from: sender.addrString(), data: p})
				}
			}
			tag++
			fp := payload(tag, 9)
			if err := fence.sendTo(fp, [4]byte{127, 0, 0, 1}, port); err != nil {
				rt.Fatalf("INFRA: fence sendto: %v", err)
			}
			want = append(want, got{n: len(fp), from: fence.addrString(), data: fp})
			// the witnesses prove that the host received the group traffic
			for _, w := range wits {
				if !sysx.WaitReadable(w.fd, 1000) {
					rt.Fatalf("INFRA: witness of %s did not receive the datagram: multicast loopback does not work here", gs(w.group))
				}
				sysx.ReadSome(w.fd, 1<<16)
			}
			for i := 0; i < 50 && len(inbox) < len(want) && rerr == nil; i++ {
				sysx.WaitReadable(pfd, 100)
				pump()
			}
			pump()
			if rerr != nil {
				rt.Fatalf("read failed: %v; trace=%v", rerr, trace)
			}
			desc := func(gg []got) string {
				var s []string
				for _, x := range gg {
					s = append(s, fmt.Sprintf("%s/%d/%x", x.from, x.n, head(x.data)))
				}
				return strings.Join(s, " ")
			}
			mismatch := len(inbox) != len(want)
			for i := 0; i < len(want) && !mismatch; i++ {
				mismatch = inbox[i].n != want[i].n || inbox[i].from != want[i].from || !bytes.Equal(inbox[i].data, want[i].data)
			}
			if n := socketsOnPort(port); n != 1+len(wits) && mismatch {
				rt.Fatalf("INFRA: %d sockets of this host are bound to the test port %d, expected %d (another process received the same ephemeral port): the case cannot be judged", n, port, 1+len(wits))
			}
			if len(inbox) != len(want) {
				rt.Fatalf("after %s(%s): the peer read %d datagrams [%s], the membership model (group states %s) expects %d [%s] (fence last); trace=%v", op, gs(g), len(inbox), desc(inbox), modelString(model, groups), len(want), desc(want), trace)
			}
			for i := range want {
				if inbox[i].n != want[i].n || inbox[i].from != want[i].from || !bytes.Equal(inbox[i].data, want[i].data) {
					rt.Fatalf("after %s(%s): datagram %d read by the peer is %s/%d/%x, expected %s/%d/%x; trace=%v", op, gs(g), i, inbox[i].from, inbox[i].n, head(inbox[i].data), want[i].from, want[i].n, head(want[i].data), trace)
				}
			}
			trace = append(trace, fmt.Sprintf("traffic:%d-delivered", len(want)-1))
		}
		var cls []string
		cls = append(cls, "C:membership")
		if changes >= 2 {
			cls = append(cls, ">=2-membership-changes")
		}
		if swaps > 0 {
			cls = append(cls, "buffer-swap")
		}
		if bindForm != fmt.Sprintf(":%d", claimed) {
			cls = append(cls, "C:kernel-chosen-port")
		}
		rec.Case("C|"+bindForm+"|"+strings.Join(trace, ","), changes >= 2 || swaps > 0, cls, map[string]any{"bind": bindForm, "history": trace})
	})
}

func modelString(m map[[4]byte]*groupState, groups [][4]byte) string {
	var s []string
	for _, g := range groups {
		st := m[g]
		s = append(s, fmt.Sprintf("%d.%d.%d.%d:%s/blocked=%v/include=%v", g[0], g[1], g[2], g[3], st.mode, keys(st.blocked), keys(st.include)))
	}
	return strings.Join(s, " ")
}

func keys(m map[string]bool) []string {
	var k []string
	for x := range m {
		k = append(k, x)
	}
	return k
}
