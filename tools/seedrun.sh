#!/bin/bash
# Applies a seeded change to /repo, runs the given checks, and undoes the change straight afterwards.
#   tools/seedrun.sh <patch.diff> [--tier quick|thorough] <check ids...>
set -u
patch="$(realpath "$1")"; shift
tier=quick
if [ "${1:-}" = "--tier" ]; then tier="$2"; shift 2; fi
cd /verif
if [ -n "$(git -C /repo status --porcelain)" ]; then echo "/repo is not clean"; exit 2; fi
trap 'git -C /repo checkout -- . ; git -C /repo clean -fdq' EXIT
if ! git -C /repo apply "$patch"; then echo "patch does not apply"; exit 2; fi
for id in "$@"; do
  out=$(VERIF_SEED=${VERIF_SEED:-1} ./check "$id" --tier "$tier" 2>&1); rc=$?
  echo "== $id rc=$rc $(echo "$out" | grep -E '^(VIOLATION|INCONCLUSIVE|C[0-9]+ (quick|thorough))' | tr '\n' ' ')"
  if [ $rc -ne 0 ]; then echo "$out" | grep -E "rapid\] (failed|panic|flaky)|probe |WATCHDOG|DATA RACE|^    [a-z0-9_]+_test.go:[0-9]+: [A-Za-z]" | cut -c1-400 | head -4; fi
done
