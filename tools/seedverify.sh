#!/bin/bash
# Confirms a seeded change independently of the sub-agent's worktree:
#   tools/seedverify.sh <SEED dir with patch.diff + demo> <demo package dir relative to repo> <demo test regex> [packages to run the existing suite on]
# in a fresh scratch worktree: demo passes without the patch, fails with it, existing tests of the given packages pass with it.
set -u
seed="$1"; pkg="$2"; re="$3"; shift 3
pkgs="${*:-$pkg}"
export GOFLAGS=-mod=mod GOPROXY=off
wt=/tmp/wt/verify_$$
git -C /repo worktree add -q "$wt" HEAD || exit 2
trap 'git -C /repo worktree remove --force "$wt"' EXIT
cd "$wt"
for f in "$seed"/*_test.go; do [ -f "$f" ] && cp "$f" "$wt/$pkg/"; done
echo "--- demo WITHOUT patch"
timeout 300 go test -vet=off -count=1 -timeout 4m -run "$re" "./$pkg/" 2>&1 | tail -3
git apply "$seed/patch.diff" || { echo "PATCH DOES NOT APPLY"; exit 2; }
go build ./... 2>&1 | grep -v "^#\|examples" | head -3
echo "--- demo WITH patch"
timeout 300 go test -vet=off -count=1 -timeout 4m -run "$re" "./$pkg/" 2>&1 | grep -v "^=== \|^    --- PASS" | tail -8 | cut -c1-300
echo "--- existing tests WITH patch (demo files removed)"
for f in "$seed"/*_test.go; do [ -f "$f" ] && rm -f "$wt/$pkg/$(basename $f)"; done
# the repository's tests use fixed loopback ports; a private network namespace keeps other runs on this machine out of the way
# (the multicast package needs eth0 and stays outside)
ns() { if [ "$1" = "multicast" ]; then shift; "$@"; else shift; unshare -n bash -c 'ip link set lo up; exec "$@"' _ "$@"; fi; }
for p in $pkgs; do
  ns "$p" timeout 900 go test -vet=off -count=1 -timeout 12m -skip 'TestCodecConnWriteNext|TestCodecConnAsyncWriteNext' "./$p/" 2>&1 | grep "^ok\|^FAIL\|^--- FAIL\|^panic" | head -5
  if [ "$p" = "." ]; then
    # the two tests with the channel race hang in about half of their runs on the unchanged tree: they count as passing if one of five attempts passes
    for t in TestCodecConnWriteNext TestCodecConnAsyncWriteNext; do
      okc=0; for i in 1 2 3 4 5; do if ns . timeout 20 go test -vet=off -count=1 -timeout 15s -run "^$t\$" . >/dev/null 2>&1; then okc=1; break; fi; done; echo "$t passes=$okc"
    done
  fi
done
