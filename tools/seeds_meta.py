#!/usr/bin/env python3
"""Writes seeded/<id>/meta.json from the table below (what each seeded change breaks, what it needs in order to
manifest, what was run to confirm it, and which check catches it)."""
import json, os
V = os.path.dirname(os.path.dirname(os.path.abspath(__file__)))
CONFIRM = ("confirmed in a fresh scratch worktree of /repo HEAD with tools/seedverify.sh: demo test copied into the package, "
           "run without the patch (passes), patch applied with `git apply` (builds), demo run again (fails), demo removed and the "
           "existing tests of the touched packages run with the patch (pass; root package inside a private network namespace because "
           "its tests use fixed ports; TestCodecConnWriteNext/AsyncWriteNext, which hang ~50% of isolated runs on the unchanged tree, "
           "count as passing when one of five attempts passes; TestUDPPeerIPv6_Addresses always fails here)")
S = {
 "C01-a": ("C01", "internal/poll_linux.go: interest mask taken once per event before the read dispatch", "read+write both deferred on one descriptor, both ready in ONE epoll event, and the read callback cancels/closes the same object", "C01 quick (as built)", "root package, internal"),
 "C01-b": ("C01", "file.go: cancelReads/cancelWrites invoke the handler before removing the poller interest", "Cancel() whose ErrCancelled callback re-issues the same kind of operation, which cannot complete inline", "C01 quick (as built)", "root package"),
 "C02-a": ("C02", "file.go: scheduleRead accumulates readSoFar (+=) instead of storing it", "one AsyncReadAll that hits would-block at least twice with bytes already read", "C02 quick (as built)", "root package"),
 "C02-b": ("C02", "async_adapter.go: the failing Write's partial count is not added on the error path", "net.Conn.Write returning n>0 with an error (write deadline while the peer does not drain)", "C02 quick after adding adapter writes under a write deadline", "root package"),
 "C03-a": ("C03", "internal/poll_linux.go: DelRead/DelWrite decrement pending only when epoll_ctl succeeds", "an epoll_ctl removal that fails: descriptor closed/replaced underneath while an operation is deferred, then Cancel/Close/dispatch", "C03 quick (as built)", "root package, internal"),
 "C03-b": ("C03", "internal/poll_linux.go: Del removes both interests with one decrement", "read AND write deferred on one object, then Close before either completes", "C03 quick (as built)", "root package"),
 "C04-a": ("C04", "internal/timer_linux.go: stale-event branch returns without re-registering the read interest", "timer expired, cancelled and re-armed by an earlier handler of the same poll batch: the new schedule never fires", "C04 thorough as built; quick after adding the raceRearm action and 300 cases", "root package"),
 "C04-b": ("C04", "internal/poll_linux.go: `&slot.Events` dropped from the dispatch conditions", "two timers expired in one batch, the first one's callback closes/cancels the second", "C04 quick (as built); also C01", "root package"),
 "C05-a": ("C05", "internal/poll_linux.go: eventfd drained after the queue swap in dispatch", "a Post from another goroutine landing between the swap and the drain, and no later Post: its wake-up is consumed, the handler stranded", "C05 quick (as built; failure reported as non-reproducible by rapid, the watchdog message is the evidence)", "root package"),
 "C05-b": ("C05", "internal/poll_linux.go: Post skips the eventfd write while a 'waking' flag is set; Poll clears the flag after dispatch", "a Post made while posted handlers are executing (nested or from another goroutine) with no later Post", "C05 quick (as built)", "root package"),
 "C06-a": ("C06", "codec/websocket/frame_codec.go: Reserve only if payloadLength > src.Cap()", "a frame whose payload lies within a header's width of the read buffer capacity (4093..4096 bytes on a fresh stream)", "C06 quick after adding payload sizes around the buffer capacity and the empty-buffer guard in the scripted transport", "codec/websocket"),
 "C06-b": ("C06", "codec/websocket/stream.go: asyncNextMessage derives 'continuation' from readBytes>0", "AsyncNextMessage on a fragmented message whose first fragment is empty", "C06 quick (as built)", "codec/websocket"),
 "C07-a": ("C07", "codec/websocket/frame_codec.go: masking key read only when payloadLength>0", "a masked frame with an empty payload (decoder consumes 2 of 6 bytes and loses sync)", "C07 quick (as built)", "codec/websocket"),
 "C08-a": ("C08", "codec/websocket/stream.go: 1006 frame / Terminated on EOF only when state==Active", "transport EOF after we started closing (Close or protocol violation) and before the peer's Close", "C08 quick (as built)", "codec/websocket"),
 "C09-a": ("C09", "byte_buffer.go: Discard moves the tail only up to the read index", "Discard/DiscardAll while uncommitted bytes are pending in the write area", "C09 quick (as built)", "root package"),
 "C10-a": ("C10", "bip_buffer.go: Commit uses a wrapped-side flag cached at Claim time", "claim while wrapped, consume the whole head region, then commit", "C10 quick (as built)", "root package"),
 "C11-a": ("C11", "bytes/mirrored_buffer.go: free-space clamp written as used+n > size", "Claim/Commit with an amount above MaxInt-used on a non-empty ring (integer overflow)", "C11 quick after adding MaxInt-class amounts", "bytes"),
 "C12-a": ("C12", "multicast/peer.go: read buffer recorded only on the would-block path", "a UDPPeer read deferred at the dispatch limit (33rd read of a chain re-armed from completions) with a buffer different from the last pending one", "C12 quick after adding chained re-armed reads with fresh buffers and bursts up to 80; also C14 quick as built", "multicast"),
 "C13-a": ("C13", "multicast/peer.go: closed-guard of UDPPeer.Close removed", "A closed, B receives A's descriptor number and defers a read, A closed again (wipes B's keep-alive entry), all references to B dropped, GC", "C13 quick after adding the repeated-close + orphan test", "multicast"),
 "C14-a": ("C14", "file.go: zero-length fast path invokes the callback outside the Dispatched accounting", "chains containing operations with an empty buffer", "C14 quick after adding empty-buffer links", "root package"),
 "C15-a": ("C15", "codec/websocket/stream.go: asyncNextMessage merges its recursive calls; a control frame resets 'message in progress'", "AsyncNextMessage, fragmented message, ping/pong between fragments, then a new text/binary frame", "C15 quick (as built)", "codec/websocket"),
 "C16-a": ("C16", "codec/websocket/frame.go: 7-bit length case n<125 instead of <=125", "a payload of exactly 125 bytes (16-bit length encoding used)", "C16 quick (as built)", "codec/websocket"),
 "C17-a": ("C17", "codec/websocket/stream.go: AsyncFlush reuses the waiter slice's backing array", "a flush in flight with a waiter queued, and callbacks that start two flush-needing operations when it completes (needs two application writes overlapping)", "C17 quick after letting callbacks start operations, adding the pongOverlap action and allowing up to three overlapping application writes", "codec/websocket"),
 "C18-a": ("C18", "codec/websocket/stream.go: incremental CRLFCRLF scan with 2 bytes of overlap", "a response whose segment boundary falls exactly 3 bytes into the final blank line (handshake hangs)", "C18 quick after adding cuts around the end of the response head and a handshake watchdog", "codec/websocket"),
 "C19-a": ("C19", "byte_buffer.go: WriteTo returns on a failed Write without consuming what earlier Writes of the same call sent", "blocking WriteNext on a non-blocking transport: short successful write(s) then would-block in the middle of an item, then the caller flushes", "C19 quick after adding the blocking-write would-block scenario; also C09 quick as built", "root package, codec/frame"),
 "C20-a": ("C20", "slot_sequencer.go: Push stores the raw slot instead of the offset-adjusted one", "push into a sequencer that has discarded a slot but not drained (offsetter not reset), then pop that push", "C20 quick (as built)", "root package"),
 "C07-b": ("C07", "codec/websocket/frame.go: PayloadLength clears the top bit of a 64-bit length", "a 127-form frame whose 64-bit length has the top bit set and whose low 63 bits are within the maximum", "C07 quick (as built)", "codec/websocket"),
 "C08-b": ("C08", "codec/websocket/stream.go: AsyncClose moves to ClosedByUs only when the Close frame's write completes", "AsyncClose whose transport write completes in a later cycle, with State()/writes/a second close observed meanwhile", "C08 quick after leaving AsyncClose in flight across other actions", "codec/websocket"),
 "C09-b": ("C09", "byte_buffer.go: Consume fast path Resets the buffer when the read area is drained and the write area empty", "saved bytes outstanding while the whole read area is consumed with nothing uncommitted", "C09 quick (as built)", "root package"),
 "C10-b": ("C10", "bip_buffer.go: Reset reimplemented through Consume(Committed())", "Reset on a wrapped buffer (two committed regions)", "C10 quick (as built)", "root package"),
 "C11-b": ("C11", "bytes/util_linux.go: mmapAllocate over-reserves 2 MiB for huge-page sized rings and returns an aligned window; Destroy unmaps only the window", "a ring whose size is a multiple of 2 MiB, created and destroyed (mapping leak visible in /proc/self/maps)", "C11 quick after adding sizes that are multiples of 2 MiB", "bytes"),
 "C12-b": ("C12", "socket.go: SendTo rebuilds the cached sockaddr only when the IP changes (port ignored)", "two consecutive UDPPeer writes to the same IP and different ports", "C12 quick after varying the write destination among several receivers on one address", "root package, multicast"),
 "C13-b": ("C13", "internal/socket_unix.go: ConnectUDP does not close the socket when a socket option fails", "Dial of a udp network with an option that is rejected (or BindSocket conflict)", "C13 quick (as built)", "root package, internal"),
 "C14-b": ("C14", "listen_conn.go: AsyncAccept's inline error completion is outside the Dispatched accounting", "a chain of accepts that fail immediately (EMFILE) and are re-armed from their callbacks", "C14 quick after adding chains of immediately failing operations (descriptor table full)", "root package"),
 "C15-b": ("C15", "codec/websocket/frame_codec.go: the maximum size is only enforced when the payload is not yet wholly buffered", "an oversized frame that arrives completely inside what is already buffered", "C15 quick (as built)", "codec/websocket"),
 "C16-b": ("C16", "codec/websocket/stream.go: asyncFlush pops the queue head by moving the last element into slot 0", "an asynchronous transport and at least three more frames queued while a write is in flight", "C16 quick after adding bursts of overlapping asynchronous writes (TestC16_Bursts); C17 quick as built", "codec/websocket"),
 "C17-b": ("C17", "codec/websocket/stream.go: asyncFlush restores a queue snapshot taken before the transport write", "a frame queued (pong, close reply or application write) while another frame's write is in flight on the adapter", "C17 quick (as built); also C16 quick with TestC16_Bursts", "codec/websocket, root package"),
 "C18-b": ("C18", "codec/websocket/stream.go: handshakeBuffer no longer emptied before the upgrade read loop", "a handshake that fails with an incomplete/unparsable head, then a second handshake on the same stream", "C18 quick (as built)", "codec/websocket"),
 "C19-b": ("C19", "file.go: asyncWrite initialises the write reactor only on the inline path", "an asynchronous write issued at the dispatch limit (33rd of a chain started from completions) with a buffer different from the previous write's", "C19 quick after chaining writes and reads from their callbacks over a socket (34..120 items)", "root package, codec/frame"),
 "C20-b": ("C20", "slot_offsetter.go: running byte counter instead of the Fenwick sum in Add", "a push refused by the slot container (duplicate or slot-count limit) followed by a successful push, then popping it before a drain", "C20 quick (as built)", "root package, util"),
}
for sid, (prop, change, needs, caught, suites) in S.items():
    d = os.path.join(V, "seeded", sid)
    if not os.path.isdir(d):
        continue
    demo = [f for f in os.listdir(d) if f.endswith("_test.go")]
    meta = {
        "id": sid, "property": prop, "change": change, "needs_to_manifest": needs,
        "files": ["patch.diff"] + demo + (["NOTES.md"] if os.path.exists(os.path.join(d, "NOTES.md")) else []),
        "produced_by": "a fresh sub-agent that was given only the property text and its own scratch worktree (nothing from /verif)",
        "confirmed": CONFIRM, "existing_suites_run_with_patch": suites,
        "checks_run": "tools/seedrun.sh seeded/%s/patch.diff %s (git -C /repo apply, ./check <id> --tier quick, git -C /repo checkout -- .)" % (sid, prop),
        "caught_by": caught,
    }
    json.dump(meta, open(os.path.join(d, "meta.json"), "w"), indent=1)
print("wrote", len([1 for s in S if os.path.isdir(os.path.join(V, "seeded", s))]))
