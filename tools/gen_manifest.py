#!/usr/bin/env python3
"""Regenerates /verif/MANIFEST.json from the table below and the PROPS table of ./check."""
import json, os, re, subprocess, sys
V = os.path.dirname(os.path.dirname(os.path.abspath(__file__)))
claimed = subprocess.run([os.path.join(V, "check"), "--list"], stdout=subprocess.PIPE, text=True).stdout.split()

# id -> (category, level text, level note, technique, design ref)
T = {
 "C12": ("exploration",
         "Property testing (rapid) on real UDP sockets: (A) datagram boundary/addressing round trips for PacketConn and UDPPeer with raw senders and receivers; (B) bind forms and getter-versus-getsockopt/getsockname agreement after every setter; (C) model-based membership histories on the sandbox's multicast-capable interface with witness sockets keeping every group joined on the host, a membership model predicting delivery, and a unicast fence datagram deciding non-delivery without timeouts. Bounded search. Membership histories are steered towards re-subscription (rejoin in the former mode, put the former source filter back).",
         "Trusts the kernel's loopback of local multicast on eth0, per-sender ordering on loopback, and the membership model of Linux source filters (operations that trigger the kernel's mode switch on an empty source list are not generated); known finding loop-getter-initial is probed and excluded.",
         "model-based and round-trip property-based testing over real UDP/multicast sockets (rapid)", "DESIGN.md §4 C12"),
 "C13": ("fault_enumeration",
         "Fault enumeration plus property testing: (a) for every constructor the k-th descriptor allocation is made to fail with EMFILE for every k below what success needs (descriptor table filled, k slots freed), plus refused/conflicting/unroutable/failing-option/bad-response faults, each followed by a /proc/self/fd census comparison - the table is enumerated completely; (b) rapid-generated histories of repeated Close interleaved with creation of other objects check that only owned descriptors are ever closed (census + inode identity of every other live object); (c) rapid-generated garbage-collection points while reads and/or writes are deferred and the program holds no reference (finalizer sentinels captured by the callbacks); (d) chains of objects each created inside the completion callback of its predecessor, which closes itself there (the new object gets the recycled descriptor number); (e) every kind of object created on, and released from, descriptor number 0; (f) objects closed after their IO was closed (the object's own descriptor must be released whatever the poller answers); (g) websocket sessions on one Stream ended with CloseNextLayer and restarted from inside or after the cancelled callbacks: the ended session's socket must be gone, the next one's open and usable.",
         "Trusts /proc/self/fd, fstat inode identity and Go finalizers after forced double collection; websocket handshakes are explored with EMFILE at k=0 only (an in-process server competes for freed slots otherwise); GC points are sampled at operation boundaries.",
         "fault enumeration (EMFILE at the k-th allocation, protocol faults) + stateful property-based testing (rapid)", "DESIGN.md §4 C13"),
 "C17": ("exploration",
         "Property testing (rapid state machine) over a real handshake, the real AsyncAdapter and a real TCP socket: generated positions of peer events (data, ping) and application calls (AsyncNextFrame/AsyncNextMessage, AsyncWrite/AsyncWriteFrame/AsyncFlush) relative to poll cycles, so that application writes overlap the read path's automatic control-reply flush; every user callback must run exactly once within a bounded number of PollOne calls, and the server-side byte stream must parse into the expected frames in order. Bounded search over schedules. Plus a teardown test: a read and 1..3 writes in flight on a real connection, both directions in one poller event, CloseNextLayer called from the read callback or a write callback; every callback exactly once, none afterwards.",
         "Trusts the raw harness server and the independent parser; messages <= 2 KiB (the adapter writes through blocking net.Conn.Write); one read and up to three application writes outstanding; completion callbacks start further operations.",
         "stateful property-based testing over real sockets with harness-chosen poll cycles (rapid)", "DESIGN.md §4 C17"),
 "C18": ("exploration",
         "Metamorphic property testing (rapid) of the opening handshake against a raw TCP server in the harness: response status, header set/order/case/whitespace, accept key, piggy-backed frames, segmentation and early close are generated; acceptance must equal the RFC predicate for every variant, the bytes after the response (up to ~12 KiB of them, behind heads of up to ~9 KiB) must all arrive as frames, and a re-handshaken stream must behave like a fresh one. Bounded search.",
         "Trusts the harness server and independent accept-key computation; segments are separated by 3 ms pauses (a pause that fails to separate them only weakens the case).",
         "metamorphic property-based testing against a scripted server (rapid)", "DESIGN.md §4 C18"),
 "C05": ("exploration",
         "Property testing (rapid-generated plans) of concurrent Post under the race detector: N poster goroutines with generated yield points and nesting (Post from posted handlers, from goroutines spawned by handlers) against a loop goroutine locked to its OS thread running a generated poll/run/arm/cancel script; exactly-once, loop-thread execution (gettid), per-poster order, wake-up of a blocked RunOne, deadlock watchdog, Pending()/Posted() at quiescence, and no data-race report in a -race build; a sequential companion test queues bursts of up to 60000 handlers before the loop is polled and then posts from inside handlers (exactly once, order, reproducible from the drawn numbers). The OS scheduler picks the interleavings: the data-race half is timing-independent, the rest statistical.",
         "Trusts the Go race detector (built with -gcflags=all=-d=checkptr=0 because checkptr aborts on the poller's unaligned slot pointer), gettid for thread identity and the 10 s watchdog (normal case < 100 ms).",
         "property-based concurrency testing under the race detector (rapid + -race)", "DESIGN.md §4 C05"),
 "C01": ("exploration",
         "Model-based property testing (rapid state machine) on a generated world of real descriptors (TCP conns, adapters, FIFO ends, listener, packet conn) with raw peers owned by the harness: the harness decides the composition and order of every poll batch (readiness settled with poll(2)), both completion paths are reached for real (32 nested inline completions, filled buffers), handlers cancel/close/re-arm other objects; Cancel is also called from a callback sitting on 32 nested inline completions, followed there by Close or a new operation; per-operation completion counts, Cancel/Close contracts and a count-bounded final drain are checked. Bounded search over schedules, not a proof.",
         "Trusts poll(2) on RawFd() as the readiness oracle and the harness's raw peers; one read and one write in flight per object; AsyncAdapter writes limited to what fits the socket buffer.",
         "stateful property-based testing with harness-controlled poll batches (rapid)", "DESIGN.md §4 C01"),
 "C02": ("exploration",
         "Property testing (rapid) of stream pairs with position-dependent bytes in both directions: generated read/write sizes and peer chunk sizes force partial transfers and would-block in the middle of *All operations; every completion's bytes, counts and the peer's received stream are checked against the generator stream; one test lets a peer goroutine write tiny segments concurrently so that a ReadAll never meets would-block. Bounded search. The ByteBuffer transfer test also commits deliveries in two parts across a reallocating Reserve.",
         "Trusts the position-dependent byte generator and the raw peer sockets; AsyncAdapter writes limited to what fits the socket buffer (net.Conn.Write blocks otherwise).",
         "round-trip property-based testing over real sockets (rapid)", "DESIGN.md §4 C02"),
 "C03": ("exploration",
         "Model-based property testing (rapid): after every step of generated histories (ops, peer actions, cancels, closes, timers, posts, failing registrations) IO.Pending() is compared with an independent shadow ledger; RunPending is run under a watchdog at the end; a separate generated test interrupts waits with real signals (tgkill). Bounded search.",
         "Trusts the shadow ledger (ops whose callback has not run, armed timers, posted handlers) and the 10 s watchdog (normal case < 50 ms); Post from inside posted handlers is left to C05.",
         "stateful property-based testing against a shadow ledger + signal injection (rapid)", "DESIGN.md §4 C03"),
 "C04": ("exploration",
         "Model-based property testing (rapid) with real timerfds: generated schedules/cancels/closes from top level and from handlers of other timers and of a socket in the same poll batch; per-schedule ids decide which callbacks may run; one-sided timing oracle (elapsed >= delay - 50us, monotonic clock) and count-bounded liveness after sleeping past the deadlines; a second test blocks the loop in the poller across deadlines of 100..6000 us (fractional milliseconds) so that 'never early' is observed at the moment of expiry; a third runs 2..4 independent loops on their own threads at full speed (callbacks on the right thread, far-away schedules untouched); a fourth forgets scheduled timers after a refused second schedule and forces garbage collections (finalizer sentinels). Bounded search in real time (1..15 ms delays).",
         "Real time cannot be virtualised without rewriting the code under test: tolerance 50 us, liveness margin 5 ms; load only lengthens sleeps (safe direction).",
         "stateful property-based testing with a per-schedule reference model (rapid)", "DESIGN.md §4 C04"),
 "C14": ("exploration",
         "Property testing (rapid): generated chains (up to 200 links) of immediately completable operations over a mix of object kinds, each link issued from the previous completion; harness nesting counter, per-link results by construction, IO.Dispatched at rest and a PollOne budget are checked; operations that must wait are started, and pending operations of other objects cancelled, from inside a chain at a generated depth; chains on descriptors the poller refuses (regular file, /dev/zero) are followed with the harness's own nesting counter. Bounded search.",
         "Everything a link needs is buffered in the kernel beforehand; known finding regular-file-deferred is excluded by construction (counted) and probed separately.",
         "property-based testing of generated operation chains (rapid)", "DESIGN.md §4 C14"),
 "C06": ("exploration",
         "Differential + reference-model property testing (rapid): generated message lists, fragmentations, interleaved control frames and byte-stream segmentations are delivered through a scripted transport to all four read APIs (async completions inline or parked); every delivery is compared with the generated reference and across APIs and two segmentations. Bounded search.",
         "Trusts the independent RFC 6455 encoder in harness/internal/rfc6455, the scripted transport harness/internal/memstream and the verif-tagged VerifAttach hook (state=Active + init, what in-package tests do).",
         "differential property-based testing against an independent encoder (rapid)", "DESIGN.md §4 C06"),
 "C07": ("exploration",
         "Property testing (rapid) plus coverage-guided native fuzzing (thorough tier) of FrameCodec.Decode against an independent RFC 6455 parser: frame bytes, ErrNeedMore iff incomplete, error iff declared>max (incl. top-bit lengths), exact consumption, bounded capacity, split-independence, independence of how the buffer is filled (growing Write, capacity-limited ReadFrom, buffers reused after Reset), Encode->Decode round trips. Bounded search.",
         "Trusts harness/internal/rfc6455 as the reference parser; capacity bound allows Go's append growth (2x).",
         "property-based testing + coverage-guided fuzzing with a differential oracle", "DESIGN.md §4 C07"),
 "C08": ("exploration",
         "Model-based property testing (rapid state machine): generated histories of peer events and local calls on a scripted transport are compared step by step with a reference RFC 6455 endpoint model (read results, refused writes, allowed State() set) and the outbound bytes, parsed independently, with the model's frame list; a blocking read may not go back to the transport while a reply it queued is unsent. Bounded search (<=25 steps per history).",
         "Trusts the endpoint model in harness/ws/c08_statemachine_test.go and the independent parser; behaviours the property leaves open (pong while closing, error on an invalid close payload) are accepted either way.",
         "stateful property-based testing against a protocol reference model (rapid)", "DESIGN.md §4 C08"),
 "C15": ("exploration",
         "Mutation-style property testing (rapid): exactly one protocol violation injected into a generated conforming session at a generated position, under generated segmentations, for all four read APIs; checks error reporting, non-delivery, Close(1002) + state + write refusal for framing violations. Bounded search.",
         "Trusts the session generator shared with C06 and the independent parser; fragmentation-rule and message-size mutations are judged on the message APIs only, as the property states.",
         "property-based testing with single-fault mutation of conforming inputs (rapid)", "DESIGN.md §4 C15"),
 "C16": ("exploration",
         "Property testing (rapid): generated write histories (all APIs, length classes, caller-built frames with/without payload, auto Pong/Close, pooled-frame reuse, inline/parked transport completions); the complete captured byte stream must parse with an independent parser into exactly the submitted frames; on a real connection, the wire of a session that follows failed or abandoned writes and a re-handshake of the same Stream must carry only that session's frames. Bounded search.",
         "Trusts the independent parser; the history test keeps one application write in flight, the burst test issues up to nine without waiting and releases transport completions one at a time; scripted transport is all-or-error like the real adapter; GOMAXPROCS=1 makes sync.Pool reuse deterministic.",
         "property-based testing with an independent parser as oracle (rapid)", "DESIGN.md §4 C16"),
 "C19": ("exploration",
         "Round-trip / differential property testing (rapid) of CodecConn with the length-prefixed codec: every segmentation class of the read stream over a scripted transport, write path byte-exactness, hostile and over-limit headers, a real sonic.Dial<->sonic.Listen pair with small kernel buffers so both directions would-block mid-item, a raw peer that ends the stream right behind its last items (every item must be returned before EOF), plus a native fuzz target in the thorough tier. Bounded search. Plus tail-while-parked: an AsyncReadNext parked in the poller (FIFO read end, socketpair adapter, TCP conn) when the peer writes its last items and closes before the next poll; every item before io.EOF.",
         "Trusts the 4-byte big-endian reference framing in the harness; declared lengths between 1 MiB and the 1 GiB limit are not generated (allocation cost).",
         "round-trip property-based testing + fuzzing (rapid, go fuzz)", "DESIGN.md §4 C19"),
 "C09": ("exploration",
         "Model-based property testing (rapid state machine) over the whole ByteBuffer API with boundary-class integer arguments (MinInt..MaxInt), compared after every call with a three-slice reference model and the live-slot list; panics are failures; shrunk counterexample on failure. Bounded search, not a proof.",
         "Trusts the three-slice model in harness/buffers/c09_bytebuffer_test.go; Discard/SavedSlot only with live slots, Reserve <= 1 MiB, io doubles obey the io contracts (see DESIGN.md §7).",
         "stateful property-based testing against a reference model (rapid)", "DESIGN.md §4 C09"),
 "C11": ("exploration",
         "Model-based property testing (rapid) over every class of accepted size (powers of two, other page multiples, rounded sizes): claim offsets and lengths, mirror aliasing through a 2*Size view of the mapping, committed bytes intact, used+free==Size, mappings and backing file gone after Destroy. Bounded search.",
         "Trusts the ring model in harness/buffers/c11_mirrored_test.go, /proc/self/maps and pointer arithmetic on the mapping; amounts are non-negative.",
         "stateful property-based testing against a ring model (rapid)", "DESIGN.md §4 C11"),
 "C20": ("exploration",
         "Model-based property testing (rapid) of ByteBuffer+SlotSequencer and ByteBuffer+SlotOffsetter: generated push/pop/discard interleavings with duplicates, negatives, capacity overruns, never-drained regimes; SavedSlot(slot) and Saved() compared with a seq->bytes model after every step. Bounded search.",
         "Trusts the model in harness/buffers/c20_slots_test.go; Save is immediately followed by Push and a popped slot is discarded before the next Pop (documented workflow).",
         "stateful property-based testing against a reference model (rapid)", "DESIGN.md §4 C20"),
 "C10": ("exploration",
         "Model-based property testing (rapid state machine): thousands of generated Claim/Commit/Consume/Head/Reset histories on buffers of many sizes, compared step by step with a FIFO-of-chunks reference model that carries physical offsets; shrunk counterexample on failure. Bounded search, not a proof: holds on every generated history.",
         "Trusts the reference model in harness/buffers/c10_bip_test.go, Go's unsafe pointer arithmetic for offsets, and rapid's generators; amounts are non-negative as the property quantifies.",
         "stateful property-based testing against a reference model (rapid)", "DESIGN.md §4 C10"),
}
allp = [json.loads(l)["id"] for l in open(os.path.join(V, "properties.jsonl"))]
checks, na = [], []
for pid in allp:
    if pid in claimed and pid in T:
        cat, text, note, tech, ref = T[pid]
        checks.append({
            "property_id": pid,
            "quick_cmd": "./check %s --tier quick" % pid,
            "thorough_cmd": "./check %s --tier thorough" % pid,
            "evidence_file": "/verif/evidence/%s.json" % pid,
            "replay_cmd_template": "./check %s --replay {path}" % pid,
            "engine": "harness",
            "level_claimed": {"category": cat, "text": text, "design_ref": ref},
            "level_note": note,
            "technique": tech,
        })
    else:
        na.append({"property_id": pid, "reason": "check not built yet in this session (planned, see DESIGN.md §4); not claimed until its check exists and is quiet on the unchanged tree"})
hooks_commits = []
hc = os.path.join(V, "HOOK_COMMITS.txt")
if os.path.exists(hc):
    hooks_commits = [l.split()[0] for l in open(hc) if l.strip() and not l.startswith("#")]
m = {
 "version": 1,
 "setup_cmd": "./check --setup",
 "hooks": {
   "guard": "verif",
   "enable": "go test -tags verif (the harness module replaces github.com/talostrading/sonic with /repo, so every check compiles /repo's working tree with the tag on)",
   "baseline_off_cmd": "cd /repo && go test -mod=mod -vet=off -count=1 -timeout 25m ./...",
   "source_commits": hooks_commits,
   "add_only": True,
 },
 "engines": [{"name": "harness", "path": "/verif/harness", "serves_properties": [c["property_id"] for c in checks],
              "kind_free_text": "Go module with pgregory.net/rapid v1.3.0 property tests (state-machine and differential), native go fuzz targets in the thorough tier, driven by the python3 script /verif/check"}],
 "checks": checks,
 "not_applicable": na,
 "notes": "All checks are property-based tests / fuzzing with an explicit oracle; see DESIGN.md. Exit 2 from a check means inconclusive (infrastructure), never a violation. Known, unrepaired findings are listed in KNOWN_FINDINGS.txt.",
}
json.dump(m, open(os.path.join(V, "MANIFEST.json"), "w"), indent=1)
print("claimed:", len(checks), "not_applicable:", len(na))
