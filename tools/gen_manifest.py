#!/usr/bin/env python3
"""Regenerates /verif/MANIFEST.json from the table below and the PROPS table of ./check."""
import json, os, re, subprocess, sys
V = os.path.dirname(os.path.dirname(os.path.abspath(__file__)))
claimed = subprocess.run([os.path.join(V, "check"), "--list"], stdout=subprocess.PIPE, text=True).stdout.split()

# id -> (category, level text, level note, technique, design ref)
T = {
 "C09": ("exploration",
         "Model-based property testing (rapid state machine) over the whole ByteBuffer API with boundary-class integer arguments (MinInt..MaxInt), compared after every call with a three-slice reference model and the live-slot list; panics are failures; shrunk counterexample on failure. Bounded search, not a proof.",
         "Trusts the three-slice model in harness/buffers/c09_bytebuffer_test.go; Discard/SavedSlot only with live slots, Reserve <= 1 MiB, io doubles obey the io contracts (see DESIGN.md §7).",
         "stateful property-based testing against a reference model (rapid)", "DESIGN.md §4 C09"),
 "C11": ("exploration",
         "Model-based property testing (rapid) over every class of accepted size (powers of two, other page multiples, rounded sizes): claim offsets and lengths, mirror aliasing through a 2*Size view of the mapping, committed bytes intact, used+free==Size, mappings and backing file gone after Destroy. Bounded search.",
         "Trusts the ring model in harness/buffers/c11_mirrored_test.go, /proc/self/maps and pointer arithmetic on the mapping; amounts are non-negative.",
         "stateful property-based testing against a ring model (rapid)", "DESIGN.md §4 C11"),
 "C20": ("exploration",
         "Model-based property testing (rapid) of ByteBuffer+SlotSequencer and ByteBuffer+SlotOffsetter: generated push/pop/discard interleavings with duplicates, negatives, capacity overruns, never-drained regimes; SavedSlot(slot) and Saved() compared with a seq->bytes model after every step. Bounded search.",
         "Trusts the model in harness/buffers/c20_slots_test.go; Save is immediately followed by Push and a popped slot is discarded before the next Pop (documented workflow).",
         "stateful property-based testing against a reference model (rapid)", "DESIGN.md §4 C20"),
 "C10": ("exploration",
         "Model-based property testing (rapid state machine): thousands of generated Claim/Commit/Consume/Head/Reset histories on buffers of many sizes, compared step by step with a FIFO-of-chunks reference model that carries physical offsets; shrunk counterexample on failure. Bounded search, not a proof: holds on every generated history.",
         "Trusts the reference model in harness/buffers/c10_bip_test.go, Go's unsafe pointer arithmetic for offsets, and rapid's generators; amounts are non-negative as the property quantifies.",
         "stateful property-based testing against a reference model (rapid)", "DESIGN.md §4 C10"),
}
allp = [json.loads(l)["id"] for l in open(os.path.join(V, "properties.jsonl"))]
checks, na = [], []
for pid in allp:
    if pid in claimed and pid in T:
        cat, text, note, tech, ref = T[pid]
        checks.append({
            "property_id": pid,
            "quick_cmd": "./check %s --tier quick" % pid,
            "thorough_cmd": "./check %s --tier thorough" % pid,
            "evidence_file": "/verif/evidence/%s.json" % pid,
            "replay_cmd_template": "./check %s --replay {path}" % pid,
            "engine": "harness",
            "level_claimed": {"category": cat, "text": text, "design_ref": ref},
            "level_note": note,
            "technique": tech,
        })
    else:
        na.append({"property_id": pid, "reason": "check not built yet in this session (planned, see DESIGN.md §4); not claimed until its check exists and is quiet on the unchanged tree"})
hooks_commits = []
hc = os.path.join(V, "HOOK_COMMITS.txt")
if os.path.exists(hc):
    hooks_commits = [l.split()[0] for l in open(hc) if l.strip() and not l.startswith("#")]
m = {
 "version": 1,
 "setup_cmd": "./check --setup",
 "hooks": {
   "guard": "verif",
   "enable": "go test -tags verif (the harness module replaces github.com/talostrading/sonic with /repo, so every check compiles /repo's working tree with the tag on)",
   "baseline_off_cmd": "cd /repo && go test -mod=mod -vet=off -count=1 -timeout 25m ./...",
   "source_commits": hooks_commits,
   "add_only": True,
 },
 "engines": [{"name": "harness", "path": "/verif/harness", "serves_properties": [c["property_id"] for c in checks],
              "kind_free_text": "Go module with pgregory.net/rapid v1.3.0 property tests (state-machine and differential), native go fuzz targets in the thorough tier, driven by the python3 script /verif/check"}],
 "checks": checks,
 "not_applicable": na,
 "notes": "All checks are property-based tests / fuzzing with an explicit oracle; see DESIGN.md. Exit 2 from a check means inconclusive (infrastructure), never a violation. Known, unrepaired findings are listed in KNOWN_FINDINGS.txt.",
}
json.dump(m, open(os.path.join(V, "MANIFEST.json"), "w"), indent=1)
print("claimed:", len(checks), "not_applicable:", len(na))
