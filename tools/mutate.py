#!/usr/bin/env python3
"""Mechanical sensitivity sweep: small syntactic mutations of the files the properties are anchored in, each run against
the quick checks of the properties anchored in that file, in scratch copies of /repo and of the harness under /tmp
(never in /repo itself). Prints one line per mutant: killed-by / survived / does-not-compile.

  tools/mutate.py --n 300 --workers 8 --seed 1 [--files file.go,...] [--out results.jsonl]

A surviving mutant is not a finding by itself (many are equivalent or outside every listed property); survivors are
triaged by hand and recorded in DESIGN.md.
"""
import argparse, json, os, random, re, shutil, subprocess, sys, time
from concurrent.futures import ThreadPoolExecutor

V = os.path.dirname(os.path.dirname(os.path.abspath(__file__)))
PKG = {"C01": "loop", "C02": "loop", "C03": "loop", "C04": "loop", "C05": "post", "C06": "ws", "C07": "ws", "C08": "ws",
       "C09": "buffers", "C10": "buffers", "C11": "buffers", "C12": "udp", "C13": "fds", "C14": "loop", "C15": "ws",
       "C16": "ws", "C17": "ws", "C18": "ws", "C19": "stream", "C20": "buffers"}


def anchors():
    m = {}
    for l in open(os.path.join(V, "properties.jsonl")):
        p = json.loads(l)
        for f in p["anchors"]["files"]:
            m.setdefault(f, []).append(p["id"])
    return m


REL = [("<=", "<"), (">=", ">"), ("==", "!="), ("!=", "=="), (" < ", " <= "), (" > ", " >= "), ("&&", "||"), ("||", "&&"),
       (" + 1", ""), (" - 1", ""), ("+= ", "-= "), ("-= ", "+= "), (" true", " false"), (" false", " true"), (" + ", " - "), (" - ", " + ")]


def candidates(path, text):
    out = []
    lines = text.split("\n")
    infunc = False
    for i, ln in enumerate(lines):
        st = ln.strip()
        if ln.startswith("func "):
            infunc = True
        if ln.startswith("}"):
            infunc = False
            continue
        if not infunc or not st or st.startswith("//") or st.startswith("func ") or '"' in st and st.count('"') % 2:
            continue
        code = ln.split("//")[0]
        for a, b in REL:
            k = code.find(a)
            if k >= 0 and code[:k].count('"') % 2 == 0 and code[:k].count("`") % 2 == 0:
                out.append((i, "%s -> %s" % (a.strip() or "∅", b.strip() or "∅"), code[:k] + b + code[k + len(a):]))
        if re.match(r"^\s*if .* \{\s*$", code) and " := " not in code:
            cond = re.sub(r"^\s*if (.*) \{\s*$", r"\1", code)
            out.append((i, "negate condition", code.replace("if " + cond + " {", "if !(" + cond + ") {")))
        if re.match(r"^\s*[\w\.\[\]\*\(\)]+(\s*(=|\+=|-=|\|=|&=|\^=)\s*[^=].*|\+\+|--)\s*$", code) and ":=" not in code:
            out.append((i, "delete statement", re.match(r"^\s*", code).group(0) + "_ = 0"))
        if re.match(r"^\s*(_ = )?[\w\.]+\(.*\)\s*$", code) and not st.startswith("return") and not st.startswith("defer") and not st.startswith("go "):
            out.append((i, "delete call", re.match(r"^\s*", code).group(0) + "_ = 0"))
    return out


def goenv():
    e = dict(os.environ)
    e.update({"GOFLAGS": "-mod=mod", "GOPROXY": "off"})
    e.pop("GOSUMDB", None)
    return e


def prepare(k):
    root = "/tmp/mut/%d" % k
    shutil.rmtree(root, ignore_errors=True)
    os.makedirs(root)
    subprocess.run(["git", "-C", "/repo", "worktree", "prune"], check=False)
    subprocess.run("git -C /repo archive HEAD | tar -x -C %s/repo" % root if False else "mkdir -p %s/repo && git -C /repo archive HEAD | tar -x -C %s/repo" % (root, root), shell=True, check=True)
    shutil.copytree(os.path.join(V, "harness"), root + "/harness", ignore=shutil.ignore_patterns("testdata"))
    gm = open(root + "/harness/go.mod").read().replace("=> /repo", "=> %s/repo" % root)
    open(root + "/harness/go.mod", "w").write(gm)
    return root


def run_check(root, pid, timeout):
    pkg = PKG[pid]
    wd = root + "/run"
    shutil.rmtree(wd, ignore_errors=True)
    os.makedirs(wd + "/evid")
    env = goenv()
    env.update({"VERIF_SEED": "1", "VERIF_SHARD": "0", "VERIF_SCALE": "1.0", "VERIF_TIER": "quick", "VERIF_EVID_DIR": wd + "/evid",
                "VERIF_KNOWN": os.path.join(V, "KNOWN_FINDINGS.txt"), "VERIF_ROOT": V})
    binp = root + "/%s.test" % pkg
    cmd = ["go", "test", "-c", "-vet=off", "-tags", "verif", "-o", binp]
    if pid == "C05":
        cmd += ["-race", "-gcflags=all=-d=checkptr=0"]
    cmd += ["./" + pkg]
    r = subprocess.run(cmd, cwd=root + "/harness", env=env, stdout=subprocess.PIPE, stderr=subprocess.STDOUT, text=True)
    if r.returncode != 0:
        return "nocompile", r.stdout[-300:]
    try:
        r = subprocess.run([binp, "-test.run", "^Test%s_" % pid, "-test.count=1", "-test.timeout", "%ds" % timeout], cwd=wd, env=env,
                           stdout=subprocess.PIPE, stderr=subprocess.STDOUT, text=True, timeout=timeout + 30)
    except subprocess.TimeoutExpired:
        return "killed", "hang (timeout)"
    if r.returncode == 0:
        return "survived", ""
    if "panic: test timed out" in r.stdout:
        return "killed", "hang (test timeout)"
    m = re.search(r"rapid\] (failed|panic)[^\n]*", r.stdout) or re.search(r"--- FAIL[^\n]*", r.stdout)
    return "killed", (m.group(0) if m else r.stdout[-200:])[:240]


def main():
    ap = argparse.ArgumentParser()
    ap.add_argument("--n", type=int, default=100)
    ap.add_argument("--workers", type=int, default=6)
    ap.add_argument("--seed", type=int, default=1)
    ap.add_argument("--files", default="")
    ap.add_argument("--out", default="/tmp/mut/results.jsonl")
    ap.add_argument("--timeout", type=int, default=150)
    ap.add_argument("--only-survivors", default="", help="results file(s): re-run exactly the mutants recorded there as survived")
    ap.add_argument("--skip", default="", help="results file(s) of earlier runs, comma separated: mutants listed there are not run again")
    a = ap.parse_args()
    anc = anchors()
    files = [f for f in anc if os.path.exists(os.path.join("/repo", f)) and not f.endswith("_test.go")]
    if a.files:
        files = [f for f in files if f in a.files.split(",")]
    allc = []
    for f in sorted(files):
        text = open(os.path.join("/repo", f)).read()
        for (i, what, newline) in candidates(f, text):
            allc.append((f, i, what, newline))
    seen = set()
    for sf in [x for x in a.skip.split(",") if x]:
        for l in open(sf):
            try:
                r = json.loads(l)
                seen.add((r["file"], r["line"], r["op"]))
            except Exception:
                pass
    allc = [c for c in allc if (c[0], c[1] + 1, c[2]) not in seen]
    if a.only_survivors:
        keep = set()
        for sf in [x for x in a.only_survivors.split(",") if x]:
            for l in open(sf):
                try:
                    r = json.loads(l)
                    if r.get("status") == "survived":
                        keep.add((r["file"], r["line"], r["op"], r["old"]))
                except Exception:
                    pass
        lines_of = {}
        def old_of(c):
            f = c[0]
            if f not in lines_of:
                lines_of[f] = open(os.path.join("/repo", f)).read().split("\n")
            return lines_of[f][c[1]].strip()
        allc = [c for c in allc if (c[0], c[1] + 1, c[2], old_of(c)) in keep]
    rnd = random.Random(a.seed)
    rnd.shuffle(allc)
    chosen = allc[: a.n]
    print("candidates=%d chosen=%d files=%d" % (len(allc), len(chosen), len(files)), flush=True)
    os.makedirs("/tmp/mut", exist_ok=True)
    roots = [prepare(k) for k in range(a.workers)]
    free = list(roots)
    outf = open(a.out, "a")

    def work(job):
        f, i, what, newline = job
        root = free.pop()
        try:
            path = os.path.join(root, "repo", f)
            orig = open(path).read()
            lines = orig.split("\n")
            old = lines[i]
            lines[i] = newline
            open(path, "w").write("\n".join(lines))
            res = {"file": f, "line": i + 1, "op": what, "old": old.strip(), "new": newline.strip(), "checks": {}}
            try:
                b = subprocess.run(["go", "build", "./..."], cwd=os.path.join(root, "repo"), env=goenv(), stdout=subprocess.PIPE, stderr=subprocess.STDOUT, text=True)
                bad = [l for l in b.stdout.split("\n") if l and not l.startswith("#") and "examples" not in l]
                if bad:
                    res["status"] = "nocompile"
                else:
                    status = "survived"
                    for pid in anc[f]:
                        st, msg = run_check(root, pid, a.timeout)
                        res["checks"][pid] = [st, msg]
                        if st == "killed":
                            status = "killed"
                            break
                        if st == "nocompile":
                            status = "nocompile"
                            break
                    res["status"] = status
            finally:
                open(path, "w").write(orig)
            return res
        finally:
            free.append(root)

    t0 = time.time()
    with ThreadPoolExecutor(max_workers=a.workers) as ex:
        for res in ex.map(work, chosen):
            outf.write(json.dumps(res) + "\n")
            outf.flush()
            ks = ",".join("%s:%s" % (k, v[0]) for k, v in res["checks"].items())
            print("%-9s %s:%d [%s] %s  =>  %s   {%s}" % (res["status"], res["file"], res["line"], res["op"], res["old"][:70], res["new"][:70], ks), flush=True)
    print("done in %.0fs" % (time.time() - t0))
    for r in roots:
        shutil.rmtree(r, ignore_errors=True)


if __name__ == "__main__":
    main()
