#!/bin/bash
# Runs every seeded change against the quick check of its property (or of the property named by meta.json's sweep_check); prints one line per change.
# (applies each patch to /repo in turn and always restores it; do not run anything else against /repo meanwhile)
cd "$(dirname "$0")/.."
for d in seeded/*/; do
  id=$(basename $d); prop=${id%-*}
  if grep -q '"obsolete": true' $d/meta.json 2>/dev/null; then echo "$id obsolete (see meta.json)"; continue; fi
  if grep -q '"unreachable_here": true' $d/meta.json 2>/dev/null; then echo "$id not reachable in this sandbox (see meta.json)"; continue; fi
  other=$(sed -n 's/.*"sweep_check": "\(C[0-9]*\)".*/\1/p' $d/meta.json 2>/dev/null)
  if [ -n "$other" ]; then prop=$other; fi
  out=$(tools/seedrun.sh $d/patch.diff $prop 2>&1 | grep "^== $prop rc=" | head -1 | cut -c1-120)
  echo "$id $out"
done
git -C /repo status --short | head -3
